#!/usr/bin/env python3
r"""
Regenerate coq/gen/Gen_dispatch.v from $GLUE_REPO/glue/core/state.py: the dispatch and lookup logic of the serialisation
framework, translated statement by statement / expression by expression into Gallina (C12):

    class VersionedDict      __init__  __contains__  get_version  __getitem__  __delitem__  __len__  __setitem__   (the whole class;
                             any other method makes the translation fail)
    lookup_class_with_patches                                   (the `while name in PATH_PATCHES` loop -> Fixpoint on fuel)
    GlueSerializer.serializes / GlueUnSerializer.unserializes   (the saver / loader decorators; `saver = ...`, `loader = ...`)
    GlueSerializer._dispatch, GlueSerializer.do                 (MRO walk over savers; _type / _protocol stamping)
    GlueUnSerializer._dispatch                                  (rec['_type'] -> lookup_class_with_patches -> MRO walk over loaders)
  + the table `registrations`: every `@saver(T[, version=n])` / `@loader(..)` decorator of the non-test modules of the package, by ast,
    in source order (class resolved in the live module; ids of coq/gen/Gen_tables.v).

FAIL-CLOSED: every form that is accepted is listed here; anything else aborts with the line number and exit status 3.

Representation (the fixed, hand-written prelude below is the trusted reading of the Python data model):
  objects / classes / functions / interned strings are numbers (Z) with decidable identity; int = Z; None = py_None;
  self._data (defaultdict(dict))     = association list key -> inner dict in insertion order; READING self._data[k] creates the entry
                                       (dd_getitem returns the new outer dict and the inner one); an inner dict / PATH_PATCHES = list (Z * Z);
  a VersionedDict object             = its _data (the class has no other attribute); GlueSerializer.dispatch / GlueUnSerializer.dispatch
                                       are such objects: `self.dispatch` / `cls.dispatch` is the state variable d of the function;
  a record (JSON dict)               = association list string -> Z; self._working = list of object ids;
  what the code does not define is a field of `ops`: int(), type(), .mro(), hasattr / getattr by attribute name, isinstance by class
  name, membership in the module tuples `literals` / `builtin_iterables`, "%s.%s" % (a, b), string constants as object ids (intern),
  glue.utils.lookup_class, the call of a registered saver function, PATH_PATCHES (the live dict);
  a function is   f o [fuel] params STATE : STATE * outcome T   with STATE = d (and `working` for GlueSerializer.do; none for
  lookup_class_with_patches), outcome = Ret v | Raise exception | OutOfFuel (only below a `while`); lookup_class_with_patches and
  GlueUnSerializer._dispatch always take the fuel argument, the other functions may not contain a `while`.

Statements accepted
  docstring ; logging.debug(..) ; pass                                   no effect
  return [e]  (last statement of its block) ; raise X(..) with X in KeyError ValueError TypeError GlueSerializeError ; continue
  x = e ; a, b = e  (e a tuple-valued call, or the key tuple: ValueError unless its length fits)
  self._data = defaultdict(dict)                                         (only as the whole body of VersionedDict.__init__)
  self._data[k1][k2] = e ; X.dispatch[k] = e ; result['key'] = e         (the first reads self._data[k1] -> creates the entry)
  self._working.add(e) ; self._working.remove(e)                         (remove: KeyError when absent)
  if / elif / else ; `x is None` on a parameter with default None becomes a match
  try: .. except X: ..  (several handlers; no else / finally)            a raise below finds its handler statically; an exception coming out
                                                                         of a called translated function or a loop is tested against the handlers
  for x in <list>: ..                                                    structural Fixpoint over the list (return / raise / continue inside)
  while c: ..                                                            Fixpoint on fuel; the names assigned in the body are carried
  def decorator(func): .. ; return decorator                             (only as the whole body of the two decorator factories)
Expressions accepted
  integer / string constants ; local names ; a + b, a - b on integers ; 'literal' + x ; '%s.%s' % (a, b)
  ==, !=, <, <=, >, >= on integers ; not ; and / or (short-circuit: an operand with a side effect is evaluated only when reached)
  x is None / is not None ; len(e) ; int(e) (ValueError) ; max(<inner dict>) (ValueError when empty) ; type(e) ; id(e)
  k in / not in  self._data | <inner dict> | X.dispatch | PATH_PATCHES | self._working | literals | builtin_iterables
  self._data[k] (creates) ; <inner dict>[k] (KeyError) ; X.dispatch[k] ; PATH_PATCHES[k] (KeyError) ; rec['key'] (KeyError) ; rec.get('key', int)
  X.dispatch.get_version(k, v) ; self._dispatch(e) ; lookup_class_with_patches(e) ; lookup_class(e) ; e.mro()
  hasattr(e, 'name') ; e.__gluestate__ / __setgluestate__ / __module__ / __name__ ; isinstance(e, str | types.FunctionType | types.MethodType)
  fun(obj, self) with fun the dispatched saver ; as_nested_lists(obj) ; (a, b) ; the pinned test
  all((isinstance(x, literals) for x in flattened(obj)))  -> ops.flat_literals
"""
import ast
import os
import re
import sys

REPO = os.environ.get('GLUE_REPO', '/repo')
SRC = os.path.join(REPO, 'glue/core/state.py')
HERE = os.path.dirname(os.path.abspath(__file__))
COQGEN = os.path.join(os.path.dirname(os.path.dirname(HERE)), 'coq/gen')
OUT = os.path.join(COQGEN, 'Gen_dispatch.v')
TABLES = os.path.join(COQGEN, 'Gen_tables.v')

EXCS = ('KeyError', 'ValueError', 'TypeError', 'GlueSerializeError')
RENAME = {'fun', 'rec', 'type', 'at', 'in', 'o', 'd', 'working', 'fuel', 'it_', 'end', 'match', 'with', 'let', 'if', 'then', 'else',
          'as', 'return', 'fix', 'forall', 'exists', 'Type', 'Prop', 'Set', 'list', 'map', 'length', 'fst', 'snd', 'option', 'Some',
          'None', 'nat', 'bool', 'Z', 'string', 'mro', 'intern', 'dotted', 'ops', 'Ret', 'Raise', 'Next', 'Done', 'id', 'max'}
ATTR_NAMES = ('__gluestate__', '__setgluestate__', '__module__', '__name__')
ISINSTANCE_OK = ('str', 'types.FunctionType', 'types.MethodType')
GLOBAL_TUPLES = ('literals', 'builtin_iterables')
PINNED_ALL = 'all((isinstance(x, literals) for x in flattened(obj)))'


class Unsupported(Exception):
    pass


def fail(node, why):
    try:
        txt = ast.unparse(node)[:140]
    except Exception:
        txt = repr(node)
    raise Unsupported('line %s: %s: %s' % (getattr(node, 'lineno', '?'), why, txt.replace('\n', ' | ')))


def cq(name):
    return name + '_' if (name in RENAME or name.endswith('_')) else name


def TUP(*ts):
    return ('tuple',) + tuple(ts)


GTY = {'Z': 'Z', 'bool': 'bool', 'unit': 'unit', 'listZ': 'list Z', 'optZ': 'option Z', 'inner': 'inner', 'ddict': 'ddict',
       'sdict': 'sdict', 'set': 'list Z', 'pyv': 'pyv', 'nat': 'nat', 'str': 'string'}


def gty(t):
    if isinstance(t, tuple):
        return '(' + ' * '.join(gty(x) for x in t[1:]) + ')'
    return GTY[t]


# ----------------------------------------------------------------------------- function table
class Sig(object):
    def __init__(self, cname, params, state, rtype, self_kind=None, fuel=False):
        self.cname, self.params, self.state, self.rtype, self.self_kind = cname, params, state, rtype, self_kind
        self.needs_fuel = fuel      # fixed by the signature table, so that the model that calls the function still compiles after an edit


# python (class, method) -> signature.  `state` = the state variables threaded through the function
SIGS = {
    ('VersionedDict', '__contains__'): Sig('vd_contains', [('key', 'Z')], ['d'], 'bool', 'vd'),
    ('VersionedDict', 'get_version'): Sig('vd_get_version', [('key', 'Z'), ('version', 'optZ')], ['d'], 'Z', 'vd'),
    ('VersionedDict', '__getitem__'): Sig('vd_getitem', [('key', 'Z')], ['d'], TUP('Z', 'Z'), 'vd'),
    ('VersionedDict', '__delitem__'): Sig('vd_delitem', [('key', 'Z')], ['d'], 'unit', 'vd'),
    ('VersionedDict', '__len__'): Sig('vd_len', [], ['d'], 'Z', 'vd'),
    ('VersionedDict', '__setitem__'): Sig('vd_setitem', [('key', 'listZ'), ('value', 'Z')], ['d'], 'unit', 'vd'),
    (None, 'lookup_class_with_patches'): Sig('lookup_class_with_patches', [('name', 'Z')], [], 'Z', None, fuel=True),
    ('GlueSerializer', 'serializes'): Sig('ser_serializes', [('obj', 'Z'), ('version', 'Z'), ('func', 'Z')], ['d'], 'Z', 'cls'),
    ('GlueUnSerializer', 'unserializes'): Sig('unser_unserializes', [('obj', 'Z'), ('version', 'Z'), ('func', 'Z')], ['d'], 'Z', 'cls'),
    ('GlueSerializer', '_dispatch'): Sig('ser_dispatch', [('obj', 'Z')], ['d'], TUP('Z', 'Z'), 'ser'),
    ('GlueSerializer', 'do'): Sig('ser_do', [('obj', 'Z')], ['d', 'working'], 'pyv', 'ser'),
    ('GlueUnSerializer', '_dispatch'): Sig('unser_dispatch', [('rec', 'sdict')], ['d'], 'Z', 'unser', fuel=True),
}
ORDER = [('VersionedDict', '__contains__'), ('VersionedDict', 'get_version'), ('VersionedDict', '__getitem__'),
         ('VersionedDict', '__delitem__'), ('VersionedDict', '__len__'), ('VersionedDict', '__setitem__'),
         (None, 'lookup_class_with_patches'), ('GlueSerializer', 'serializes'), ('GlueUnSerializer', 'unserializes'),
         ('GlueSerializer', '_dispatch'), ('GlueSerializer', 'do'), ('GlueUnSerializer', '_dispatch')]
VD_METHODS = ['__init__', '__contains__', 'get_version', '__getitem__', '__delitem__', '__len__', '__setitem__']


class Ctx(object):
    """where control goes: ret(text, type), base_raise(exc text), cont(), fuel_out(); frames = the enclosing try statements"""

    def __init__(self, fn, sig, pycls):
        self.fn, self.sig, self.pycls = fn, sig, pycls
        self.frames = []
        self.aux = []
        self.nv = [0]
        self.nloop = [0]
        self.cont = None
        self.in_loop = False
        self.ret = self.top_ret
        self.base_raise = lambda e: self.pack('Raise %s' % e)
        self.fuel_out = lambda: self.pack('OutOfFuel')

    def pack(self, oc):
        st = self.sig.state
        return '(' + ', '.join(st + [oc]) + ')' if st else oc

    def pat(self, oc):
        st = self.sig.state
        return '(' + ', '.join(st + [oc]) + ')' if st else oc

    def fresh(self, p='v'):
        self.nv[0] += 1
        return '%s%d_' % (p, self.nv[0])

    def coerce(self, t, ty, node):
        want = self.sig.rtype
        if ty == want:
            return t
        if want == 'pyv' and ty == 'Z':
            return '(PObj %s)' % t
        if want == 'pyv' and ty == 'sdict':
            return '(PRec %s)' % t
        fail(node, 'the returned value has kind %r, the function returns %r' % (ty, want))

    def top_ret(self, t, ty, node):
        return self.pack('Ret %s' % self.coerce(t, ty, node))

    def clone(self):
        c = Ctx(self.fn, self.sig, self.pycls)
        c.__dict__.update(self.__dict__)
        c.frames = list(self.frames)
        return c


class Frame(object):
    def __init__(self, handlers, ctx, env, k):
        self.handlers, self.ctx, self.env, self.k = handlers, ctx, env, k


def gif(c, a, b):
    if c == 'true':
        return a
    if c == 'false':
        return b
    return '(if %s then\n%s\nelse\n%s)' % (c, a, b)


# ----------------------------------------------------------------------------- raising
def raise_static(exc, ctx, env):
    for i in reversed(range(len(ctx.frames))):
        fr = ctx.frames[i]
        for names, body in fr.handlers:
            if exc in names:
                c2 = ctx.clone()
                c2.frames = ctx.frames[:i]
                return stmts(body, 0, c2, env, fr.k)
    return ctx.base_raise(exc)


def raise_dyn(evar, ctx, env):
    def go(i):
        if i < 0:
            return ctx.base_raise(evar)
        fr = ctx.frames[i]
        inner = go(i - 1)
        for names, body in reversed(fr.handlers):
            c2 = ctx.clone()
            c2.frames = ctx.frames[:i]
            cond = ' || '.join('exc_eqb %s %s' % (evar, n) for n in names)
            inner = gif('(%s)' % cond, stmts(body, 0, c2, env, fr.k), inner)
        return inner
    return go(len(ctx.frames) - 1)


def bind_outcome(call, ctx, env, callee_state, k, rty):
    """match <call> with (.., Ret v) => k v | (.., Raise e) => handlers | (.., OutOfFuel) => .. end"""
    v, e = ctx.fresh(), ctx.fresh('e')
    def p(oc):
        return '(' + ', '.join(callee_state + [oc]) + ')' if callee_state else oc
    return ('match %s with\n| %s =>\n%s\n| %s =>\n%s\n| %s =>\n%s\nend' % (
        call, p('Ret %s' % v), k(v, rty), p('Raise %s' % e), raise_dyn(e, ctx, env), p('OutOfFuel'), ctx.fuel_out()))


# ----------------------------------------------------------------------------- expressions (continuation passing)
def is_self_attr(e, attr):
    return isinstance(e, ast.Attribute) and e.attr == attr and isinstance(e.value, ast.Name) and e.value.id in ('self', 'cls')


def is_dispatch_obj(e, ctx):
    """self.dispatch / cls.dispatch : the VersionedDict of the class = state variable d"""
    return is_self_attr(e, 'dispatch') and ctx.sig.self_kind in ('ser', 'unser', 'cls')


def is_data(e, ctx):
    return is_self_attr(e, '_data') and ctx.sig.self_kind == 'vd' and e.value.id == 'self'


def is_working(e, ctx):
    return is_self_attr(e, '_working') and 'working' in ctx.sig.state


def exs(es, ctx, env, k, acc=None):
    """evaluate a list of expressions left to right"""
    acc = acc or []
    if not es:
        return k(acc)
    return ex(es[0], ctx, env, lambda t, ty: exs(es[1:], ctx, env, k, acc + [(t, ty)]))


def call_translated(key, args, ctx, env, k, node):
    sig = SIGS[key]
    if not getattr(sig, 'done', False):
        fail(node, 'call of a function that is not translated yet')
    if len(args) != len(sig.params):
        fail(node, 'number of arguments')
    for (t, ty), (pn, pt) in zip(args, sig.params):
        if ty != pt:
            fail(node, 'argument %s has kind %r, expected %r' % (pn, ty, pt))
    for s in sig.state:
        if s not in ctx.sig.state:
            fail(node, 'the callee needs the state %s' % s)
    call = ' '.join([sig.cname, 'o'] + (['fuel'] if sig.needs_fuel else []) + [a[0] for a in args] + sig.state)
    return bind_outcome(call, ctx, env, sig.state, k, sig.rtype)


def ex(e, ctx, env, k):
    """k(text, kind) -> gallina of the rest"""
    if isinstance(e, ast.Constant):
        if isinstance(e.value, bool) or e.value is None:
            fail(e, 'constant')
        if isinstance(e.value, int):
            return k(str(e.value) if e.value >= 0 else '(%d)' % e.value, 'Z')
        if isinstance(e.value, str):
            if '"' in e.value or '\\' in e.value:
                fail(e, 'string constant')
            return k('"%s"' % e.value, 'str')
        fail(e, 'constant')
    if isinstance(e, ast.Name):
        if e.id in env:
            return k(cq(e.id), env[e.id])
        fail(e, 'unknown name')
    if isinstance(e, ast.Tuple):
        return exs(list(e.elts), ctx, env, lambda vs: k('(' + ', '.join(v[0] for v in vs) + ')', TUP(*[v[1] for v in vs])))
    if isinstance(e, ast.Attribute):
        if e.attr in ATTR_NAMES:
            return ex(e.value, ctx, env, lambda t, ty: k('(getattr_ o %s "%s")' % (t, e.attr), 'Z') if ty == 'Z' else fail(e, 'attribute of a non-object'))
        fail(e, 'attribute')
    if isinstance(e, ast.BinOp):
        if isinstance(e.op, ast.Mod):
            if not (isinstance(e.left, ast.Constant) and e.left.value == '%s.%s' and isinstance(e.right, ast.Tuple) and len(e.right.elts) == 2):
                fail(e, "string formatting other than '%s.%s' % (a, b)")
            return exs(list(e.right.elts), ctx, env,
                       lambda vs: k('(dotted o %s %s)' % (vs[0][0], vs[1][0]), 'Z') if [v[1] for v in vs] == ['Z', 'Z'] else fail(e, 'formatted values'))
        if isinstance(e.op, (ast.Add, ast.Sub)):
            def fin(vs):
                (a, ta), (b, tb) = vs
                if ta == 'Z' and tb == 'Z':
                    return k('(%s %s %s)' % (a, '+' if isinstance(e.op, ast.Add) else '-', b), 'Z')
                if ta == 'str' and tb == 'Z' and isinstance(e.op, ast.Add) and isinstance(e.left, ast.Constant):
                    return k('(PStrCat %s %s)' % (a, b), 'pyv')
                fail(e, 'operands of + / -')
            return exs([e.left, e.right], ctx, env, fin)
        fail(e, 'binary operation')
    if isinstance(e, ast.UnaryOp):
        if isinstance(e.op, ast.Not):
            return ex(e.operand, ctx, env, lambda t, ty: k(neg(t), 'bool') if ty == 'bool' else fail(e, 'not of a non-boolean'))
        if isinstance(e.op, ast.USub) and isinstance(e.operand, ast.Constant) and isinstance(e.operand.value, int):
            return k('(-%d)' % e.operand.value, 'Z')
        fail(e, 'unary operation')
    if isinstance(e, ast.BoolOp):
        is_and = isinstance(e.op, ast.And)

        def go(i):
            def after(t, ty):
                if ty != 'bool':
                    fail(e, 'operand of and / or is not a boolean')
                if i == len(e.values) - 1:
                    return k(t, 'bool')
                # short circuit: the remaining operands are evaluated only on this branch
                return gif(t, go(i + 1), k('false', 'bool')) if is_and else gif(t, k('true', 'bool'), go(i + 1))
            return ex(e.values[i], ctx, env, after)
        return go(0)
    if isinstance(e, ast.Compare):
        if len(e.ops) != 1:
            fail(e, 'chained comparison')
        op, rhs = e.ops[0], e.comparators[0]
        if isinstance(op, (ast.Is, ast.IsNot)):
            if not (isinstance(rhs, ast.Constant) and rhs.value is None):
                fail(e, 'is / is not with something else than None')

            def fin_is(t, ty):
                if ty != 'Z':
                    fail(e, '`is None` on this kind of value (a parameter with default None is tested in an `if` statement)')
                c = '(%s =? py_None)' % t
                return k(c if isinstance(op, ast.Is) else neg(c), 'bool')
            return ex(e.left, ctx, env, fin_is)
        if isinstance(op, (ast.In, ast.NotIn)):
            def member(t):
                return t if isinstance(op, ast.In) else neg(t)

            def fin_in(a, ta):
                if ta != 'Z':
                    fail(e, 'membership of a non-object')
                if is_data(rhs, ctx):
                    return k(member('(dd_contains %s d)' % a), 'bool')
                if is_working(rhs, ctx):
                    return k(member('(set_contains %s working)' % a), 'bool')
                if is_dispatch_obj(rhs, ctx):
                    return call_translated(('VersionedDict', '__contains__'), [(a, 'Z')], ctx, env, lambda v, ty: k(member(v), 'bool'), e)
                if isinstance(rhs, ast.Name) and rhs.id == 'PATH_PATCHES' and rhs.id not in env:
                    return k(member('(d_contains %s (path_patches o))' % a), 'bool')
                if isinstance(rhs, ast.Name) and rhs.id in GLOBAL_TUPLES and rhs.id not in env:
                    return k(member('(in_global o "%s" %s)' % (rhs.id, a)), 'bool')
                return ex(rhs, ctx, env, lambda b, tb: k(member('(d_contains %s %s)' % (a, b)), 'bool') if tb == 'inner' else fail(e, 'membership in this kind of value'))
            return ex(e.left, ctx, env, fin_in)
        ops = {ast.Eq: '(%s =? %s)', ast.NotEq: '(negb (%s =? %s))', ast.Lt: '(%s <? %s)', ast.LtE: '(%s <=? %s)',
               ast.Gt: '(%s >? %s)', ast.GtE: '(%s >=? %s)'}
        if type(op) in ops:
            def fin_cmp(vs):
                if [v[1] for v in vs] != ['Z', 'Z']:
                    fail(e, 'comparison of non-integers')
                return k(ops[type(op)] % (vs[0][0], vs[1][0]), 'bool')
            return exs([e.left, rhs], ctx, env, fin_cmp)
        fail(e, 'comparison')
    if isinstance(e, ast.Subscript):
        if is_data(e.value, ctx):
            def fin_dd(kk, tk):
                if tk != 'Z':
                    fail(e, 'key kind')
                v = ctx.fresh()
                return "let '(d, %s) := dd_getitem %s d in\n%s" % (v, kk, k(v, 'inner'))
            return ex(e.slice, ctx, env, fin_dd)
        if is_dispatch_obj(e.value, ctx):
            return ex(e.slice, ctx, env, lambda kk, tk: call_translated(('VersionedDict', '__getitem__'), [(kk, tk)], ctx, env, k, e))
        if isinstance(e.value, ast.Name) and e.value.id == 'PATH_PATCHES' and 'PATH_PATCHES' not in env:
            def fin_pp(kk, tk):
                if tk != 'Z':
                    fail(e, 'key kind')
                v = ctx.fresh()
                return 'match d_getitem %s (path_patches o) with\n| None =>\n%s\n| Some %s =>\n%s\nend' % (kk, raise_static('KeyError', ctx, env), v, k(v, 'Z'))
            return ex(e.slice, ctx, env, fin_pp)

        def fin_sub(vs):
            (a, ta), (kk, tk) = vs
            v = ctx.fresh()
            if ta == 'inner' and tk == 'Z':
                return 'match d_getitem %s %s with\n| None =>\n%s\n| Some %s =>\n%s\nend' % (kk, a, raise_static('KeyError', ctx, env), v, k(v, 'Z'))
            if ta == 'sdict' and tk == 'str':
                return 'match sd_getitem %s %s with\n| None =>\n%s\n| Some %s =>\n%s\nend' % (kk, a, raise_static('KeyError', ctx, env), v, k(v, 'Z'))
            fail(e, 'subscript')
        return exs([e.value, e.slice], ctx, env, fin_sub)
    if isinstance(e, ast.Call):
        return call(e, ctx, env, k)
    fail(e, 'expression')


def neg(t):
    return '(negb %s)' % t


def call(e, ctx, env, k):
    fn = e.func
    if e.keywords:
        fail(e, 'keyword arguments')
    if ast.unparse(e) == PINNED_ALL and env.get('obj') == 'Z':
        return k('(flat_literals o obj)', 'bool')
    if isinstance(fn, ast.Name) and fn.id not in env:
        n = fn.id
        if n == 'int' and len(e.args) == 1:
            def fin_int(t, ty):
                if ty != 'Z':
                    fail(e, 'int() of this kind of value')
                v = ctx.fresh()
                return 'match py_int o %s with\n| None =>\n%s\n| Some %s =>\n%s\nend' % (t, raise_static('ValueError', ctx, env), v, k(v, 'Z'))
            return ex(e.args[0], ctx, env, fin_int)
        if n == 'len' and len(e.args) == 1:
            if is_data(e.args[0], ctx):
                return k('(Z.of_nat (List.length d))', 'Z')
            return ex(e.args[0], ctx, env, lambda t, ty: k('(Z.of_nat (List.length %s))' % t, 'Z') if ty in ('listZ', 'inner', 'set') else fail(e, 'len of this kind'))
        if n == 'max' and len(e.args) == 1:
            def fin_max(t, ty):
                if ty != 'inner':
                    fail(e, 'max of something else than a dict of versions')
                v = ctx.fresh()
                return 'match py_max (d_keys %s) with\n| None =>\n%s\n| Some %s =>\n%s\nend' % (t, raise_static('ValueError', ctx, env), v, k(v, 'Z'))
            return ex(e.args[0], ctx, env, fin_max)
        if n == 'type' and len(e.args) == 1:
            return ex(e.args[0], ctx, env, lambda t, ty: k('(py_type o %s)' % t, 'Z') if ty == 'Z' else fail(e, 'type() of a non-object'))
        if n == 'id' and len(e.args) == 1:
            return ex(e.args[0], ctx, env, lambda t, ty: k('(py_id %s)' % t, 'Z') if ty == 'Z' else fail(e, 'id() of a non-object'))
        if n == 'hasattr' and len(e.args) == 2 and isinstance(e.args[1], ast.Constant) and e.args[1].value in ATTR_NAMES:
            return ex(e.args[0], ctx, env, lambda t, ty: k('(hasattr_ o %s "%s")' % (t, e.args[1].value), 'bool') if ty == 'Z' else fail(e, 'hasattr of a non-object'))
        if n == 'isinstance' and len(e.args) == 2 and ast.unparse(e.args[1]) in ISINSTANCE_OK:
            return ex(e.args[0], ctx, env, lambda t, ty: k('(isinstance_ o %s "%s")' % (t, ast.unparse(e.args[1])), 'bool') if ty == 'Z' else fail(e, 'isinstance of a non-object'))
        if n == 'as_nested_lists' and len(e.args) == 1:
            return ex(e.args[0], ctx, env, lambda t, ty: k('(PNested %s)' % t, 'pyv') if ty == 'Z' else fail(e, 'as_nested_lists argument'))
        if n == 'lookup_class' and len(e.args) == 1:
            def fin_lc(t, ty):
                if ty != 'Z':
                    fail(e, 'lookup_class argument')
                return bind_outcome('lookup_class o %s' % t, ctx, env, [], k, 'Z')
            return ex(e.args[0], ctx, env, fin_lc)
        if n == 'lookup_class_with_patches' and len(e.args) == 1:
            return ex(e.args[0], ctx, env, lambda t, ty: call_translated((None, 'lookup_class_with_patches'), [(t, ty)], ctx, env, k, e))
        fail(e, 'call')
    if isinstance(fn, ast.Name) and env.get(fn.id) == 'Z' and fn.id == 'fun' and len(e.args) == 2 \
            and isinstance(e.args[1], ast.Name) and e.args[1].id == 'self':
        # the dispatched saver is called with (obj, self): an opaque function of the object
        return ex(e.args[0], ctx, env, lambda t, ty: k('(call_saver o %s %s)' % (cq(fn.id), t), 'sdict') if ty == 'Z' else fail(e, 'saver argument'))
    if isinstance(fn, ast.Attribute):
        if fn.attr == 'mro' and not e.args:
            return ex(fn.value, ctx, env, lambda t, ty: k('(mro o %s)' % t, 'listZ') if ty == 'Z' else fail(e, '.mro() of a non-class'))
        if fn.attr == 'get' and len(e.args) == 2 and isinstance(e.args[0], ast.Constant) and isinstance(e.args[0].value, str) \
                and isinstance(e.args[1], ast.Constant) and isinstance(e.args[1].value, int) and not isinstance(e.args[1].value, bool):
            return ex(fn.value, ctx, env, lambda t, ty: k('(sd_get "%s" %d %s)' % (e.args[0].value, e.args[1].value, t), 'Z') if ty == 'sdict' else fail(e, '.get of a non-record'))
        if fn.attr == 'get_version' and is_dispatch_obj(fn.value, ctx) and len(e.args) == 2:
            return exs(list(e.args), ctx, env,
                       lambda vs: call_translated(('VersionedDict', 'get_version'), [vs[0], ('(Some %s)' % vs[1][0], 'optZ' if vs[1][1] == 'Z' else vs[1][1])], ctx, env, k, e))
        if fn.attr == '_dispatch' and isinstance(fn.value, ast.Name) and fn.value.id == 'self' and ctx.pycls in ('GlueSerializer',) and len(e.args) == 1:
            return ex(e.args[0], ctx, env, lambda t, ty: call_translated((ctx.pycls, '_dispatch'), [(t, ty)], ctx, env, k, e))
    fail(e, 'call')


# ----------------------------------------------------------------------------- statements
def is_noop(s):
    if isinstance(s, ast.Pass):
        return True
    if isinstance(s, ast.Expr) and isinstance(s.value, ast.Constant) and isinstance(s.value.value, str):
        return True
    if isinstance(s, ast.Expr) and isinstance(s.value, ast.Call) and ast.unparse(s.value.func) == 'logging.debug':
        return True
    return False


def exc_name(s):
    x = s.exc
    if s.cause is not None or x is None:
        fail(s, 'raise form')
    if isinstance(x, ast.Call):
        x = x.func
    if isinstance(x, ast.Name) and x.id in EXCS:
        return x.id
    fail(s, 'raise of an exception outside %s' % (EXCS,))


def assigned(stmts_):
    out = []
    for s in stmts_:
        for n in ast.walk(s):
            if isinstance(n, ast.Name) and isinstance(n.ctx, ast.Store) and n.id not in out:
                out.append(n.id)
    return out


def used_names(stmts_, extra=()):
    out = []
    for s in list(stmts_) + list(extra):
        for n in ast.walk(s):
            if isinstance(n, ast.Name) and n.id not in out:
                out.append(n.id)
    return out


def stmts(body, i, ctx, env, k):
    """body[i:] followed by k(env)"""
    if i == len(body):
        return k(env)
    s = body[i]

    def nxt(env2):
        return stmts(body, i + 1, ctx, env2, k)
    if is_noop(s):
        return nxt(env)
    if isinstance(s, ast.Return):
        if i != len(body) - 1:
            fail(body[i + 1], 'code after return')
        if s.value is None:
            return ctx.ret('tt', 'unit', s)
        return ex(s.value, ctx, env, lambda t, ty: ctx.ret(t, ty, s))
    if isinstance(s, ast.Raise):
        if i != len(body) - 1:
            fail(body[i + 1], 'code after raise')
        return raise_static(exc_name(s), ctx, env)
    if isinstance(s, ast.Continue):
        if ctx.cont is None or i != len(body) - 1:
            fail(s, 'continue outside a loop / code after continue')
        return ctx.cont(env)
    if isinstance(s, ast.Assign):
        if len(s.targets) != 1:
            fail(s, 'chained assignment')
        return assign(s, s.targets[0], ctx, env, nxt)
    if isinstance(s, ast.Expr) and isinstance(s.value, ast.Call):
        fn = s.value.func
        if isinstance(fn, ast.Attribute) and fn.attr in ('add', 'remove') and is_working(fn.value, ctx) and len(s.value.args) == 1 and not s.value.keywords:
            def fin_set(t, ty):
                if ty != 'Z':
                    fail(s, 'element kind')
                if fn.attr == 'add':
                    return 'let working := set_add %s working in\n%s' % (t, nxt(env))
                return 'match set_remove %s working with\n| None =>\n%s\n| Some working =>\n%s\nend' % (t, raise_static('KeyError', ctx, env), nxt(env))
            return ex(s.value.args[0], ctx, env, fin_set)
        fail(s, 'call statement')
    if isinstance(s, ast.If):
        return if_stmt(s, ctx, env, nxt)
    if isinstance(s, ast.Try):
        if s.orelse or s.finalbody or not s.handlers:
            fail(s, 'try form (only try / except)')
        handlers = []
        for h in s.handlers:
            if h.name is not None or h.type is None:
                fail(h, 'handler form')
            tys = h.type.elts if isinstance(h.type, ast.Tuple) else [h.type]
            names = []
            for t in tys:
                if not (isinstance(t, ast.Name) and t.id in EXCS):
                    fail(h, 'handler for an exception outside %s' % (EXCS,))
                names.append(t.id)
            handlers.append((names, list(h.body)))
        c2 = ctx.clone()
        c2.frames = ctx.frames + [Frame(handlers, ctx, env, lambda env2: nxt(env2))]
        # leaving the try block normally drops the frame
        return stmts(list(s.body), 0, c2, env, lambda env2: nxt(env2))
    if isinstance(s, ast.For):
        if s.orelse or not isinstance(s.target, ast.Name):
            fail(s, 'for form')
        return for_loop(s, ctx, env, nxt)
    if isinstance(s, ast.While):
        if s.orelse:
            fail(s, 'while/else')
        return while_loop(s, ctx, env, nxt)
    fail(s, 'statement')


def if_stmt(s, ctx, env, nxt):
    t = s.test
    # `x is None` on a parameter with default None
    if isinstance(t, ast.Compare) and len(t.ops) == 1 and isinstance(t.ops[0], (ast.Is, ast.IsNot)) and isinstance(t.left, ast.Name) \
            and env.get(t.left.id) == 'optZ' and isinstance(t.comparators[0], ast.Constant) and t.comparators[0].value is None:
        n = t.left.id
        env_some = dict(env)
        env_some[n] = 'Z'
        env_none = dict(env)
        env_none[n] = 'none'
        a_none, a_some = (s.body, s.orelse) if isinstance(t.ops[0], ast.Is) else (s.orelse, s.body)
        return 'match %s with\n| None =>\n%s\n| Some %s =>\n%s\nend' % (
            cq(n), stmts(list(a_none), 0, ctx, env_none, nxt), cq(n), stmts(list(a_some), 0, ctx, env_some, nxt))

    def fin(c, ty):
        if ty != 'bool':
            fail(s, 'condition is not a boolean')
        return gif(c, stmts(list(s.body), 0, ctx, env, nxt), stmts(list(s.orelse), 0, ctx, env, nxt))
    return ex(t, ctx, env, fin)


def assign(s, t, ctx, env, nxt):
    v = s.value
    if isinstance(t, ast.Name):
        def fin(val, ty):
            if ty in ('str', 'none') or (t.id in env and env[t.id] != ty and env[t.id] != 'none'):
                fail(s, 'assignment changes the kind of %s' % t.id)
            e2 = dict(env)
            e2[t.id] = ty
            return 'let %s := %s in\n%s' % (cq(t.id), val, nxt(e2))
        return ex(v, ctx, env, fin)
    if isinstance(t, ast.Tuple) and all(isinstance(x, ast.Name) for x in t.elts):
        def fin_t(val, ty):
            e2 = dict(env)
            if ty == 'listZ':
                # unpacking the key tuple: ValueError unless the length fits
                for x in t.elts:
                    e2[x.id] = 'Z'
                return 'match %s with\n| [%s] =>\n%s\n| _ =>\n%s\nend' % (val, '; '.join(cq(x.id) for x in t.elts), nxt(e2), raise_static('ValueError', ctx, env))
            if isinstance(ty, tuple) and len(ty) - 1 == len(t.elts):
                for x, k_ in zip(t.elts, ty[1:]):
                    e2[x.id] = k_
                return "let '(%s) := %s in\n%s" % (', '.join(cq(x.id) for x in t.elts), val, nxt(e2))
            fail(s, 'unpacking does not match the value')
        return ex(v, ctx, env, fin_t)
    if isinstance(t, ast.Subscript):
        # right-hand side first, then the target's sub-expressions
        def fin_v(val, tv):
            if isinstance(t.value, ast.Subscript) and is_data(t.value.value, ctx):
                def fin_k(vs):
                    (k1, tk1), (k2, tk2) = vs
                    if (tk1, tk2, tv) != ('Z', 'Z', 'Z'):
                        fail(s, 'kinds of keys / value')
                    r = ctx.fresh()
                    return "let '(d, %s) := dd_getitem %s d in\nlet d := dd_update %s (d_setitem %s %s %s) d in\n%s" % (r, k1, k1, k2, val, r, nxt(env))
                # self._data[k1] is read (the entry is created) before k2 is evaluated
                return exs([t.value.slice, t.slice], ctx, env, fin_k)
            if is_dispatch_obj(t.value, ctx):
                if not isinstance(t.slice, ast.Tuple):
                    fail(s, 'the key of a registry assignment must be written as a tuple')

                def fin_key(vs):
                    if any(x[1] != 'Z' for x in vs):
                        fail(s, 'kinds of the key tuple')
                    return call_translated(('VersionedDict', '__setitem__'), [('[' + '; '.join(x[0] for x in vs) + ']', 'listZ'), (val, tv)],
                                           ctx, env, lambda _v, _t: nxt(env), s)
                return exs(list(t.slice.elts), ctx, env, fin_key)
            if isinstance(t.value, ast.Name) and env.get(t.value.id) == 'sdict' and isinstance(t.slice, ast.Constant) and isinstance(t.slice.value, str):
                if tv == 'str':
                    val, tv = '(intern o %s)' % val, 'Z'
                if tv != 'Z':
                    fail(s, 'kind of the stored value')
                n = cq(t.value.id)
                return 'let %s := sd_setitem "%s" %s %s in\n%s' % (n, t.slice.value, val, n, nxt(env))
            fail(s, 'assignment target')
        return ex(v, ctx, env, fin_v)
    fail(s, 'assignment target')


def loop_ctx(ctx, packf):
    c2 = ctx.clone()
    c2.frames = []
    c2.in_loop = True
    c2.ret = lambda t, ty, node: packf('Done (Ret %s)' % ctx.coerce(t, ty, node))
    c2.base_raise = lambda e: packf('Done (Raise %s)' % e)
    c2.fuel_out = lambda: packf('Done OutOfFuel')
    return c2


def after_loop(call, ctx, env, nextpat, nxt_text):
    v, e = ctx.fresh(), ctx.fresh('e')
    return 'match %s with\n| %s =>\n%s\n| %s =>\n%s\n| %s =>\n%s\n| %s =>\n%s\nend' % (
        call, ctx.pat('Next %s' % nextpat), nxt_text,
        ctx.pat('Done (Ret %s)' % v), ctx.pack('Ret %s' % v) if not ctx.in_loop else ctx.pack('Done (Ret %s)' % v),
        ctx.pat('Done (Raise %s)' % e), raise_dyn(e, ctx, env),
        ctx.pat('Done OutOfFuel'), ctx.fuel_out())


def for_loop(s, ctx, env, nxt):
    if ctx.in_loop:
        fail(s, 'nested loop')
    carried = [n for n in assigned(s.body) if n in env]
    if carried:
        fail(s, 'a for loop that reassigns %s' % carried)
    ctx.nloop[0] += 1
    name = '%s_loop%d' % (ctx.sig.cname, ctx.nloop[0])
    var = s.target.id
    fvs = [n for n in used_names(s.body) if n in env and n != var and env[n] not in ('none',)]

    def fin(it, ty):
        if ty != 'listZ':
            fail(s, 'loop over something that is not a list of classes')
        c2 = loop_ctx(ctx, ctx.pack)
        e2 = dict(env)
        e2[var] = 'Z'
        c2.cont = lambda env2: '<<REC>>'
        body = stmts(list(s.body), 0, c2, e2, lambda env2: '<<REC>>')
        fuel = bool(re.search(r'\bfuel\b', body))
        head = [name, 'o'] + (['fuel'] if fuel else []) + [cq(n) for n in fvs]
        body = body.replace('<<REC>>', ' '.join(head + ['it_'] + ctx.sig.state))
        params = ''.join(' (%s : %s)' % (cq(n), gty(env[n])) for n in fvs)
        ctx.aux.append('Fixpoint %s (o : ops)%s%s (it_ : list Z)%s {struct it_} : %s :=\nmatch it_ with\n| [] => %s\n| %s :: it_ =>\n%s\nend.\n' % (
            name, ' (fuel : nat)' if fuel else '', params, state_params(ctx), loop_rtype(ctx, 'unit'), ctx.pack('Next tt'), cq(var), body))
        call_ = ' '.join(head + [it] + ctx.sig.state)
        return after_loop(call_, ctx, env, '_', nxt(env))
    return ex(s.iter, ctx, env, fin)


def state_params(ctx):
    ty = {'d': 'ddict', 'working': 'list Z'}
    return ''.join(' (%s : %s)' % (x, ty[x]) for x in ctx.sig.state)


def loop_rtype(ctx, carried_ty):
    st = {'d': 'ddict', 'working': 'list Z'}
    parts = [st[x] for x in ctx.sig.state] + ['ctl %s %s' % (carried_ty, gty(ctx.sig.rtype))]
    return '(' + ' * '.join(parts) + ')' if len(parts) > 1 else parts[0]


def while_loop(s, ctx, env, nxt):
    if ctx.in_loop:
        fail(s, 'nested loop')
    carried = [n for n in assigned(s.body) if n in env]
    new = [n for n in assigned(s.body) if n not in env]
    if new:
        fail(s, 'a while loop that introduces the names %s' % new)
    if len(carried) != 1 or env[carried[0]] != 'Z':
        fail(s, 'a while loop must carry exactly one integer / object variable')
    ctx.nloop[0] += 1
    name = '%s_loop%d' % (ctx.sig.cname, ctx.nloop[0])
    fvs = [n for n in used_names(s.body, [s.test]) if n in env and n not in carried and env[n] != 'none']
    c2 = loop_ctx(ctx, ctx.pack)
    cv = cq(carried[0])
    rec = 'match fuel with\n| O => %s\n| S fuel => %s\nend' % (
        ctx.pack('Done OutOfFuel'), ' '.join([name, 'o'] + [cq(n) for n in fvs] + ['fuel', cv] + ctx.sig.state))
    c2.cont = lambda env2: rec
    body = ex(s.test, c2, env, lambda c, ty: gif(c, stmts(list(s.body), 0, c2, env, lambda env2: rec), ctx.pack('Next %s' % cv))
              if ty == 'bool' else fail(s, 'loop condition'))
    params = ''.join(' (%s : %s)' % (cq(n), gty(env[n])) for n in fvs)
    ctx.aux.append('Fixpoint %s (o : ops)%s (fuel : nat) (%s : Z)%s {struct fuel} : %s :=\n%s.\n' % (
        name, params, cv, state_params(ctx), loop_rtype(ctx, 'Z'), body))
    call_ = ' '.join([name, 'o'] + [cq(n) for n in fvs] + ['fuel', cv] + ctx.sig.state)
    return after_loop(call_, ctx, env, cv, nxt(env))


# ----------------------------------------------------------------------------- the fixed part of the output
PRELUDE = r"""(* GENERATED by tools/gen/gen_dispatch.py from glue/core/state.py on every run -- do not edit. *)
From Coq Require Import ZArith List Bool String.
Import ListNotations.
Open Scope Z_scope.

(* ---- fixed prelude: the reading of the Python data model ---- *)
Inductive exc := KeyError | ValueError | TypeError | GlueSerializeError.
Definition exc_eqb (a b : exc) : bool :=
  match a, b with
  | KeyError, KeyError | ValueError, ValueError | TypeError, TypeError | GlueSerializeError, GlueSerializeError => true
  | _, _ => false
  end.
Inductive outcome (T : Type) := Ret (v : T) | Raise (e : exc) | OutOfFuel.
Arguments Ret {T} v. Arguments Raise {T} e. Arguments OutOfFuel {T}.
(* what a loop hands back: it ended (with the carried variable) / a return, raise or fuel exhaustion inside it *)
Inductive ctl (A T : Type) := Next (a : A) | Done (r : outcome T).
Arguments Next {A T} a. Arguments Done {A T} r.

Definition py_None : Z := -1.
Definition py_id (x : Z) : Z := x.

(* a plain dict with object / integer keys, in insertion order *)
Definition inner := list (Z * Z).
Fixpoint d_getitem (k : Z) (vs : inner) : option Z :=          (* None = KeyError *)
  match vs with
  | [] => None
  | (k', x) :: r => if k' =? k then Some x else d_getitem k r
  end.
Definition d_contains (k : Z) (vs : inner) : bool := match d_getitem k vs with Some _ => true | None => false end.
Fixpoint d_setitem (k x : Z) (vs : inner) : inner :=            (* an existing key keeps its place *)
  match vs with
  | [] => [(k, x)]
  | (k', x') :: r => if k' =? k then (k', x) :: r else (k', x') :: d_setitem k x r
  end.
Definition d_keys (vs : inner) : list Z := map fst vs.
Definition py_max (l : list Z) : option Z :=                   (* None = ValueError: max() of an empty sequence *)
  match l with [] => None | _ => Some (fold_left Z.max l (hd 0 l)) end.

(* defaultdict(dict): reading d[k] creates the entry *)
Definition ddict := list (Z * inner).
Fixpoint dd_lookup (k : Z) (d : ddict) : option inner :=
  match d with
  | [] => None
  | (k', vs) :: r => if k' =? k then Some vs else dd_lookup k r
  end.
Definition dd_contains (k : Z) (d : ddict) : bool := match dd_lookup k d with Some _ => true | None => false end.
Definition dd_touch (k : Z) (d : ddict) : ddict := match dd_lookup k d with Some _ => d | None => d ++ [(k, [])] end.
Definition dd_getitem (k : Z) (d : ddict) : ddict * inner :=
  let d1 := dd_touch k d in (d1, match dd_lookup k d1 with Some vs => vs | None => [] end).
(* the inner dict returned by d[k] is mutated in place *)
Fixpoint dd_update (k : Z) (vs : inner) (d : ddict) : ddict :=
  match d with
  | [] => []
  | (k', vs') :: r => if k' =? k then (k', vs) :: r else (k', vs') :: dd_update k vs r
  end.

(* a record (JSON object): string keys *)
Definition sdict := list (string * Z).
Fixpoint sd_getitem (k : string) (r : sdict) : option Z :=      (* None = KeyError *)
  match r with
  | [] => None
  | (k', x) :: t => if String.eqb k' k then Some x else sd_getitem k t
  end.
Definition sd_get (k : string) (dflt : Z) (r : sdict) : Z := match sd_getitem k r with Some x => x | None => dflt end.
Fixpoint sd_setitem (k : string) (x : Z) (r : sdict) : sdict :=
  match r with
  | [] => [(k, x)]
  | (k', x') :: t => if String.eqb k' k then (k', x) :: t else (k', x') :: sd_setitem k x t
  end.

(* a set of object ids *)
Definition set_contains (x : Z) (s : list Z) : bool := existsb (Z.eqb x) s.
Definition set_add (x : Z) (s : list Z) : list Z := if set_contains x s then s else s ++ [x].
Definition set_remove (x : Z) (s : list Z) : option (list Z) :=   (* None = KeyError *)
  if set_contains x s then Some (filter (fun y => negb (y =? x)) s) else None.

(* what GlueSerializer.do returns *)
Inductive pyv := PObj (x : Z) | PStrCat (prefix : string) (x : Z) | PNested (x : Z) | PRec (r : sdict).

(* what the translated code uses without defining it *)
Record ops := {
  py_int : Z -> option Z;                 (* int(x); None = ValueError *)
  py_type : Z -> Z;                       (* type(x) *)
  mro : Z -> list Z;                      (* cls.mro() *)
  hasattr_ : Z -> string -> bool;
  getattr_ : Z -> string -> Z;
  isinstance_ : Z -> string -> bool;      (* isinstance(x, <the class written in the source>) *)
  in_global : string -> Z -> bool;        (* x in <module-level tuple> *)
  flat_literals : Z -> bool;              (* all(isinstance(x, literals) for x in flattened(obj)) *)
  dotted : Z -> Z -> Z;                   (* "%s.%s" % (a, b) *)
  intern : string -> Z;                   (* a string constant as an object *)
  lookup_class : Z -> outcome Z;          (* glue.utils.lookup_class *)
  call_saver : Z -> Z -> sdict;           (* fun(obj, context) for a registered saver / __gluestate__ *)
  path_patches : inner                    (* the module-level dict PATH_PATCHES *)
}.

(* ---- translated from glue/core/state.py ---- *)
"""


def strip_doc(body):
    return [s for s in body if not (isinstance(s, ast.Expr) and isinstance(s.value, ast.Constant) and isinstance(s.value.value, str))]


def check_sig(fn, sig, extra_first, defaults_ok):
    a = fn.args
    want = extra_first + [p for p, _ in sig]
    if [x.arg for x in a.args] != want or a.vararg or a.kwarg or a.kwonlyargs or a.posonlyargs:
        fail(fn, 'signature (expected %s)' % want)
    return a


def translate_function(key, fn, pycls, params=None, body=None):
    sig = SIGS[key]
    ctx = Ctx(fn, sig, pycls)
    env = dict(params if params is not None else sig.params)
    text = stmts(list(body if body is not None else fn.body), 0, ctx, env, lambda env2: ctx.ret('tt', 'unit', fn))
    uses_fuel = bool(re.search(r'\bfuel\b', text)) or any(re.search(r'\bfuel\b', a) for a in ctx.aux)
    if uses_fuel and not sig.needs_fuel:
        fail(fn, 'a loop that needs fuel (while, or a call of lookup_class_with_patches) in a function whose signature has none')
    ps = ''.join(' (%s : %s)' % (cq(p), gty(t)) for p, t in sig.params)
    st = {'d': 'ddict', 'working': 'list Z'}
    rparts = [st[x] for x in sig.state] + ['outcome %s' % gty(sig.rtype)]
    rty = '(' + ' * '.join(rparts) + ')' if len(rparts) > 1 else rparts[0]
    sig.done = True
    return ''.join(ctx.aux) + 'Definition %s (o : ops)%s%s%s : %s :=\n%s.\n' % (
        sig.cname, ' (fuel : nat)' if sig.needs_fuel else '', ps, state_params(ctx), rty, text)


def translate():
    mod = ast.parse(open(SRC).read())
    classes = {}
    for n in mod.body:
        if isinstance(n, ast.ClassDef) and n.name in ('VersionedDict', 'GlueSerializer', 'GlueUnSerializer'):
            if n.name in classes:
                fail(n, 'class defined twice')
            classes[n.name] = n
    for c in ('VersionedDict', 'GlueSerializer', 'GlueUnSerializer'):
        if c not in classes:
            raise Unsupported('class %s not found' % c)

    def methods(cname):
        out = {}
        for n in classes[cname].body:
            if isinstance(n, (ast.FunctionDef, ast.AsyncFunctionDef)):
                if n.name in out:
                    fail(n, 'method defined twice')
                out[n.name] = n
        return out
    out = []
    # ---- VersionedDict: the whole class
    vd = classes['VersionedDict']
    if [ast.unparse(b) for b in vd.bases] != ['object'] or vd.decorator_list or vd.keywords:
        fail(vd, 'VersionedDict bases / decorators')
    vm = methods('VersionedDict')
    for n in strip_doc(vd.body):
        if not isinstance(n, ast.FunctionDef):
            fail(n, 'VersionedDict: a class-level statement that is not a method')
    if sorted(vm) != sorted(VD_METHODS):
        raise Unsupported('VersionedDict: the methods are %s, the translator knows %s (a new method changes what the class can do)' % (sorted(vm), sorted(VD_METHODS)))
    init = vm['__init__']
    if [x.arg for x in init.args.args] != ['self'] or [ast.unparse(s) for s in strip_doc(init.body)] != ['self._data = defaultdict(dict)']:
        fail(init, 'VersionedDict.__init__ must be `self._data = defaultdict(dict)`')
    out.append('Definition vd_init : ddict := [].\n')
    for key in ORDER:
        pycls, name = key
        sig = SIGS[key]
        if pycls == 'VersionedDict':
            fn = vm[name]
            a = check_sig(fn, sig.params, ['self'], True)
            if fn.decorator_list:
                fail(fn, 'decorators')
            dfl = [ast.unparse(x) for x in a.defaults]
            if dfl != (['None'] if name == 'get_version' else []):
                fail(fn, 'default values')
            out.append(translate_function(key, fn, pycls))
        elif pycls is None:
            fns = [n for n in mod.body if isinstance(n, ast.FunctionDef) and n.name == name]
            if len(fns) != 1:
                raise Unsupported('%s not found exactly once' % name)
            fn = fns[0]
            a = check_sig(fn, sig.params, [], False)
            if fn.decorator_list or a.defaults:
                fail(fn, 'decorators / defaults')
            out.append(translate_function(key, fn, pycls))
        elif name in ('serializes', 'unserializes'):
            fn = methods(pycls).get(name)
            if fn is None:
                raise Unsupported('%s.%s not found' % (pycls, name))
            a = fn.args
            if [x.arg for x in a.args] != ['cls', 'obj', 'version'] or a.vararg or a.kwarg or a.kwonlyargs or [ast.unparse(d) for d in fn.decorator_list] != ['classmethod']:
                fail(fn, 'signature / decorators of the decorator factory')
            if len(a.defaults) != 1 or not (isinstance(a.defaults[0], ast.Constant) and isinstance(a.defaults[0].value, int) and not isinstance(a.defaults[0].value, bool)):
                fail(fn, 'default version must be an integer literal')
            body = strip_doc(fn.body)
            if len(body) != 2 or not isinstance(body[0], ast.FunctionDef) or not isinstance(body[1], ast.Return) \
                    or not isinstance(body[1].value, ast.Name) or body[1].value.id != body[0].name:
                fail(fn, 'the factory must be: def decorator(func): ... ; return decorator')
            inner = body[0]
            ia = inner.args
            if [x.arg for x in ia.args] != ['func'] or ia.vararg or ia.kwarg or ia.kwonlyargs or ia.defaults or inner.decorator_list:
                fail(inner, 'signature of the inner decorator')
            out.append(translate_function(key, inner, pycls))
            out.append('Definition %s_default_version : Z := %d.\n' % (sig.cname, a.defaults[0].value))
        else:
            fn = methods(pycls).get(name)
            if fn is None:
                raise Unsupported('%s.%s not found' % (pycls, name))
            a = check_sig(fn, sig.params, ['self'], False)
            if fn.decorator_list or a.defaults:
                fail(fn, 'decorators / defaults')
            out.append(translate_function(key, fn, pycls))
    # ---- class attributes and module aliases
    for cname in ('GlueSerializer', 'GlueUnSerializer'):
        att = [n for n in classes[cname].body if isinstance(n, ast.Assign) and any(isinstance(t, ast.Name) and t.id == 'dispatch' for t in n.targets)]
        if len(att) != 1 or ast.unparse(att[0]) != 'dispatch = VersionedDict()':
            raise Unsupported('%s.dispatch must be assigned once, as `dispatch = VersionedDict()`' % cname)
    alias = {}
    for n in mod.body:
        if isinstance(n, ast.Assign) and len(n.targets) == 1 and isinstance(n.targets[0], ast.Name) and n.targets[0].id in ('saver', 'loader'):
            if n.targets[0].id in alias:
                fail(n, 'assigned twice')
            alias[n.targets[0].id] = ast.unparse(n.value)
    want = {'saver': 'GlueSerializer.serializes', 'loader': 'GlueUnSerializer.unserializes'}
    if alias != want:
        raise Unsupported('saver / loader must be %s, found %s' % (want, alias))
    for n in ast.walk(mod):
        if isinstance(n, (ast.Assign, ast.AugAssign, ast.Delete)) :
            tg = n.targets if isinstance(n, (ast.Assign, ast.Delete)) else [n.target]
            for t in tg:
                if isinstance(t, ast.Attribute) and (t.attr == 'dispatch' or (t.attr == '_data' and ast.unparse(t.value).endswith('dispatch'))):
                    fail(n, 'another assignment to a registry')
    out.append('Definition saver := ser_serializes.\nDefinition loader := unser_unserializes.\n')
    return '\n'.join(out)


# ----------------------------------------------------------------------------- the decorator calls of the package
def registrations():
    """every @saver(T[, version=n]) / @loader(..) of the non-test modules, in source order; T resolved in the live module"""
    if not os.path.exists(TABLES):
        raise Unsupported('coq/gen/Gen_tables.v is missing (gen_tables runs first)')
    names = {m.group(2): int(m.group(1)) for m in re.finditer(r'^\s*\((\d+), "([^"]*)"\);?\s*$', open(TABLES).read(), flags=re.M)}
    sys.path.insert(0, REPO)
    import importlib
    import inspect
    S = importlib.import_module('glue.core.state')
    if os.path.realpath(inspect.getsourcefile(S)) != os.path.realpath(SRC):
        raise Unsupported('the imported glue.core.state is not the file that was translated')
    rows = []
    root = os.path.join(REPO, 'glue')
    files = []
    for dp, dn, fns in os.walk(root):
        dn[:] = sorted(x for x in dn if x != 'tests' and x != '__pycache__')
        for f in sorted(fns):
            if f.endswith('.py') and not f.startswith('test_'):
                files.append(os.path.join(dp, f))
    serial = 0
    for path in files:
        txt = open(path).read()
        if '@saver' not in txt and '@loader' not in txt and 'serializes(' not in txt:
            continue
        m = ast.parse(txt)
        modname = os.path.relpath(path, REPO)[:-3].replace(os.sep, '.')
        if modname.endswith('.__init__'):
            modname = modname[:-9]
        found = []
        for n in ast.walk(m):
            if isinstance(n, (ast.FunctionDef, ast.AsyncFunctionDef)):
                for dec in n.decorator_list:
                    if isinstance(dec, ast.Call) and ast.unparse(dec.func) in ('saver', 'loader', 'GlueSerializer.serializes', 'GlueUnSerializer.unserializes'):
                        found.append((dec.lineno, n, dec))
        if not found:
            continue
        live = importlib.import_module(modname)
        for _, n, dec in sorted(found, key=lambda x: x[0]):
            is_loader = ast.unparse(dec.func) in ('loader', 'GlueUnSerializer.unserializes')
            kw = {k.arg: k.value for k in dec.keywords}
            if len(dec.args) not in (1, 2) or set(kw) - {'version'} or (len(dec.args) == 2 and kw):
                fail(dec, '%s: decorator arguments' % modname)
            ver = dec.args[1] if len(dec.args) == 2 else kw.get('version')
            if ver is None:
                v = None
            elif isinstance(ver, ast.Constant) and isinstance(ver.value, int) and not isinstance(ver.value, bool):
                v = ver.value
            else:
                fail(dec, '%s: the version of a registration is not an integer literal' % modname)
            try:
                cls = eval(compile(ast.Expression(dec.args[0]), '<decorator>', 'eval'), vars(live))
            except Exception as ex_:
                fail(dec, '%s: the registered class cannot be resolved: %r' % (modname, ex_))
            q = '%s.%s' % (cls.__module__, cls.__qualname__)
            if q not in names:
                fail(dec, '%s: %s is not in the names table of Gen_tables.v' % (modname, q))
            rows.append((is_loader, names[q], v, serial, '%s:%d %s' % (modname, dec.lineno, n.name)))
            serial += 1
    # group by registry in the order in which the live registries list the classes (module import order)
    order = {}
    for reg in (S.GlueSerializer.dispatch._data, S.GlueUnSerializer.dispatch._data):
        for kcls in reg:
            q = '%s.%s' % (kcls.__module__, kcls.__qualname__)
            if q in names:
                order.setdefault(names[q], len(order))
    rows.sort(key=lambda r: (order.get(r[1], 10 ** 6), r[3]))
    lines = ['(* ---- every @saver / @loader decorator of the non-test modules (ast), per class in source order:\n'
             '        (is_loader, class, version argument or None = default, serial number of the function) ---- *)',
             'Definition registrations : list (bool * Z * option Z * Z) := [']
    body = []
    for is_loader, cid, v, serial_, where in rows:
        body.append('  (%s, %d, %s, %d)   (* %s *)' % ('true' if is_loader else 'false', cid, 'None' if v is None else 'Some %d' % v, serial_, where))
    # the comment must come before the separator
    fixed = []
    for i, b in enumerate(body):
        code, com = b.split('   (* ', 1)
        fixed.append('%s%s   (* %s' % (code, ';' if i < len(body) - 1 else '', com))
    lines += fixed + ['].', '']
    return '\n'.join(lines)


def generate():
    text = PRELUDE + translate() + '\n' + registrations()
    if not os.path.exists(OUT) or open(OUT).read() != text:
        open(OUT, 'w').write(text)


if __name__ == '__main__':
    try:
        generate()
    except Unsupported as e:
        print('TRANSLATION-FAILED: %s' % e)
        sys.exit(3)
    print('ok', OUT)
