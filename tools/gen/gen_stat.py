#!/usr/bin/env python3
"""
Regenerate coq/gen/Gen_stat.v from $GLUE_REPO/glue/core/data.py (property C10): the index arithmetic and control skeleton of

    Data.compute_statistic   -> compute_statistic_step / compute_statistic (+ one Definition per `for` loop body)
    Data.compute_histogram   -> compute_histogram

translated statement by statement and expression by expression (python `ast`; nothing of glue is imported).  numpy reducers,
mask evaluation, fancy indexing and array construction are OPAQUE NAMED OPERATIONS (Section variables K_*) over abstract array
types (arr = data arrays, marr = boolean masks, res = results); coq/C10/Model.v instantiates them with its functional n-d arrays,
coq/C10/GenEquiv*.v proves the instantiated skeleton equal to the hand model.

Fail-closed: any statement / expression outside the forms below aborts with TRANSLATION-FAILED and the line number (exit 3).

value types   Z, bool, option Z, list Z, ratio (the float a / b kept as the exact pair (a, b)), pyview (None | Ellipsis | list | tuple
              of entries), ventry (int | slice), slice, list slice, option (list slice), pyaxis (None | int | tuple), (Z*Z) pairs
              (a chunk of iterate_chunks), arr, marr, option marr, res, and the pass-through parameters statistic, cid, subset_state,
              percentile (abstract types).  A variable may be re-bound at another type; where control joins, `list slice` / `marr`
              are lifted to their option types.
statements    "docstring" | pass
              x = <expr>                      let x := e in           (view = <tuple of slices / list of entries> is converted to a pyview)
              a, b, _ = <slice>.indices(n)    let '(a, b, _) := indices_t s n in     (see `indices` below)
              x += <int expr>                 let x := x + e in
              l.append(<expr>)                let l := l ++ [e] in
              l[i] = <expr>  (l a list Z)     let l := zupd l i e in
              r[<slices or a chunk pair>] = v let r := K_setitem r sl v in           (r a result array)
              x = self.compute_statistic(..)  match self_rec .. with Err e_ => Err e_ | Ok x => .. end
                                              (all arguments explicit; omitted keywords take the defaults of the signature)
              if c: A [elif/else: B]          if c then .. else ..   a branch all of whose paths end in return / break takes no part
                                              in the join and the rest of the block goes into the other branch; branches without
                                              return are joined through the tuple of the variables they assign; an `if` with a
                                              return on SOME path is followed by a local continuation  k_<n> (joined variables)
              for x in range(n): body         fold_left (loop<k> <free variables>) (py_range 0 n 1) state ; state = the variables
              for x in iterate_chunks(shape, chunk_shape=..):   assigned in the body that exist before the loop; `break` adds a flag to
                                              the state; the body is a Definition of its own; a body that calls self.compute_statistic
                                              runs in the error monad; iterate_chunks is Gen_array.iterate_chunks (explicit fuel)
              break                           (only as the last statement of a branch of a loop body)
              return <expr>                   Ok e
              raise NotImplementedError()     Err NotImplemented
              the random_subset blocks of both functions: the guard is translated, the BODY is compared with a template
              text and becomes one opaque operation (K_random_subset / K_hist_random_subset)
              the dask blocks of compute_histogram (`if DASK_INSTALLED ...`): compared with template texts, skipped (dask is outside
              the model)
expressions   int / bool constants, None and [] (typed by the rest of the function: the first of the candidate types under which it translates), names;
              + - on ints, comparisons == != < <= > >= on ints (also `<optional int> != k`), and / or / not, max(a, b), int(a / <ratio>),
              a / b on ints -> ratio;   x is None / is not None / is Ellipsis;   isinstance(view, list | tuple | (list, tuple)),
              isinstance(axis, int | tuple), isinstance(subset_state, SliceSubsetState), isinstance(view[i], slice),
              isinstance(<array>, categorical_ndarray);   truth value of subset_state, of a bool, of random_subset;
              len(axis | view | list);  self.ndim self.size self.shape self.shape[i];  list(self.shape), tuple(x), l[i], l[a:b], l[k] of a
              comprehension;  [e for v in range(n) if c] and generator expressions (one generator over range, at most one condition);
              a [not] in axis;  statistic == / != '<name>', statistic [not] in ('<name>', ..)  (names of statistics, numbered);  view[i], view[i].step, slice(a, b), (axis,), [axis];
              np.nan, np.zeros(n | shape), E * np.nan, np.broadcast_to(np.nan, shape), np.broadcast_to(m, shape), np.any(m),
              m.any(axis=l), np.where(m)[0], np.min(l), np.max(l), np.ndim(r), m.ndim, m.shape, <array>.size, <array>.codes,
              unbroadcast(x), mask[<slices>], self.get_data(cid[, view]), subset_state.to_mask(self, view), subset_state.to_array(self, cid),
              compute_statistic(statistic, data, mask=, axis=, finite=, positive=, percentile=)  (the numpy kernel of glue.utils),
              and for compute_histogram the forms listed at `class Hist` below.
`indices`     slice.indices raises ValueError only for step 0; both call sites are behind the guard "step is None or 1" /
              operate on step-free slices, so the translation uses the total indices_t (value (0,0,1) for step 0).
floats        `self.size / n_chunk_max` and `int(n / n_chunks)`: exact rational arithmetic (floor = truncation, operands >= 0).
"""
import ast
import os
import re
import sys

REPO = os.environ.get('GLUE_REPO', '/repo')
SRC = os.path.join(REPO, 'glue/core/data.py')
HERE = os.path.dirname(os.path.abspath(__file__))
OUT = os.path.join(os.path.dirname(os.path.dirname(HERE)), 'coq/gen/Gen_stat.v')


class Unsupported(Exception):
    pass


def fail(node, why):
    raise Unsupported('glue/core/data.py line %s: %s: %s' % (getattr(node, 'lineno', '?'), why,
                                                          ast.unparse(node)[:160] if isinstance(node, ast.AST) else node))


def is_doc(s):
    return isinstance(s, ast.Expr) and isinstance(s.value, ast.Constant) and isinstance(s.value.value, str)


def find_method(mod, cls, name):
    cs = [n for n in mod.body if isinstance(n, ast.ClassDef) and n.name == cls]
    if len(cs) != 1:
        raise Unsupported('class %s not found exactly once' % cls)
    fs = [n for n in cs[0].body if isinstance(n, ast.FunctionDef) and n.name == name]
    if len(fs) != 1:
        raise Unsupported('%s.%s not found exactly once' % (cls, name))
    return fs[0]


GT = {'Z': 'Z', 'bool': 'bool', 'optZ': 'option Z', 'listZ': 'list Z', 'ratio': '(Z * Z)', 'view': 'pyview', 'entries': 'list ventry',
      'ventry': 'ventry', 'slice': 'slice', 'slices': 'list slice', 'optslices': 'option (list slice)', 'axis': 'pyaxis',
      'pairs': 'list (Z * Z)', 'pair': '(Z * Z)', 'arr': 'arr', 'marr': 'marr', 'optmarr': 'option marr', 'res': 'res',
      'stat': 'TStat', 'cid': 'TCid', 'state': 'TState', 'pct': 'TPct', 'rec': 'rec_t', 'fuel': 'nat',
      # compute_histogram
      'harr': 'harr', 'optharr': 'option harr', 'barr': 'hbarr', 'num': 'num', 'numpair': '(num * num)', 'ranges': 'list (num * num)',
      'cids': 'list TCid', 'optcid': 'option TCid', 'optbools': 'option (list bool)', 'corr': 'corr', 'hres': 'hres'}

CMP = {ast.Eq: '=?', ast.Lt: '<?', ast.LtE: '<=?', ast.Gt: '>?', ast.GtE: '>=?'}

STAT_CODES = {'minimum': 0, 'maximum': 1, 'mean': 2, 'median': 3, 'sum': 4, 'percentile': 5}
NONE_TYPE = {'subarray_slices': 'optslices', 'chunk_view': 'view', 'mask': 'optmarr', 'w': 'optharr'}
EMPTY_TYPE = {'subarray_slices': 'slices', 'new_view': 'entries'}


def unify(a, b, node):
    if a == b:
        return a
    for lo, hi in (('slices', 'optslices'), ('marr', 'optmarr'), ('harr', 'optharr')):
        if {a, b} == {lo, hi}:
            return hi
    fail(node, 'a variable has types %s and %s where control joins' % (a, b))


def coerce(text, frm, to, node):
    if frm == to:
        return text
    table = {('slices', 'optslices'): '(Some %s)', ('marr', 'optmarr'): '(Some %s)', ('slices', 'view'): '(view_of_slices %s)',
             ('entries', 'view'): '(PVTuple %s)', ('slice', 'ventry'): '(VSlice %s)', ('optslices', 'slices'): '(unopt %s)',
             ('view', 'entries'): '(view_entries %s)', ('harr', 'optharr'): '(Some %s)', ('optharr', 'harr'): '(oget_arr %s)',
             ('optcid', 'cid'): '(oget_cid %s)'}
    if (frm, to) in table:
        return table[(frm, to)] % text
    fail(node, 'type %s where %s is needed' % (frm, to))


def always_terminal(stmts):
    if not stmts:
        return False
    s = stmts[-1]
    if isinstance(s, (ast.Return, ast.Break, ast.Raise)):
        return True
    if isinstance(s, ast.If):
        return bool(s.orelse) and always_terminal(s.body) and always_terminal(s.orelse)
    return False


def has_exit(stmts, in_loop=False):
    """a return / raise anywhere, or a break that leaves THIS block (not one of a nested loop)"""
    for s in stmts:
        if isinstance(s, (ast.Return, ast.Raise)) or (isinstance(s, ast.Break) and not in_loop):
            return True
        if isinstance(s, ast.If) and (has_exit(s.body, in_loop) or has_exit(s.orelse, in_loop)):
            return True
        if isinstance(s, (ast.For, ast.While)) and has_exit(s.body, True):
            return True
    return False


def targets_of(t):
    if isinstance(t, ast.Name):
        return [t.id]
    if isinstance(t, ast.Tuple):
        return [x for e in t.elts for x in targets_of(e)]
    if isinstance(t, ast.Subscript) and isinstance(t.value, ast.Name):
        return [t.value.id]
    return []


def assigned_any(stmts):
    out = []
    for s in stmts:
        for n in ast.walk(s):
            names = []
            if isinstance(n, ast.Assign):
                for t in n.targets:
                    names += targets_of(t)
            elif isinstance(n, ast.AugAssign):
                names += targets_of(n.target)
            elif isinstance(n, ast.Expr) and isinstance(n.value, ast.Call) and isinstance(n.value.func, ast.Attribute) \
                    and n.value.func.attr == 'append' and isinstance(n.value.func.value, ast.Name):
                names.append(n.value.func.value.id)
            for x in names:
                if x != '_' and x not in out:
                    out.append(x)
    return out


def assigned_all(stmts):
    """variables certainly assigned when control falls through stmts"""
    out = []

    def add(x):
        if x != '_' and x not in out:
            out.append(x)
    for s in stmts:
        if isinstance(s, ast.Assign):
            for t in s.targets:
                for x in targets_of(t):
                    add(x)
        elif isinstance(s, ast.AugAssign):
            for x in targets_of(s.target):
                add(x)
        elif isinstance(s, ast.If):
            if always_terminal(s.body):
                for x in assigned_all(s.orelse):
                    add(x)
            elif s.orelse and always_terminal(s.orelse):
                for x in assigned_all(s.body):
                    add(x)
            else:
                b = assigned_all(s.orelse)
                for x in assigned_all(s.body):
                    if x in b:
                        add(x)
    return out


RANDOM_STAT = '''if DASK_INSTALLED and isinstance(data, da.Array):
    random_subset_indices_dask = (data.size, random_views_for_dask_array(data, random_subset, n_chunks=10))
    data = da.hstack([data[slices].ravel() for slices in random_subset_indices_dask[1]])
    if mask is not None:
        mask = da.hstack([mask[slices].ravel() for slices in random_subset_indices_dask[1]])
else:
    if not hasattr(self, '_random_subset_indices') or self._random_subset_indices[0] != data.shape:
        self._random_subset_indices = (data.shape, random_indices_for_array(data, random_subset))
    data = data[self._random_subset_indices[1]]
    if mask is not None:
        mask = mask[self._random_subset_indices[1]]'''


class Fn:
    """translator of one method body"""
    NONE_CANDIDATES = ('optslices', 'view', 'optmarr')

    def __init__(self, fn, name):
        self.fn = fn
        self.name = name
        self.loops = []        # texts of the loop-body Definitions
        self.nk = 0

    # ------------------------------------------------------------ expressions
    def expr(self, e, env, want=None):
        if isinstance(e, ast.Constant) and e.value is None and want in ('optmarr', 'optharr', 'optslices', 'optZ'):
            return 'None', want
        t, ty = self.expr0(e, env)
        if want is not None and ty != want:
            t = coerce(t, ty, want, e)
            ty = want
        return t, ty

    def Z(self, e, env):
        return self.expr(e, env, 'Z')[0]

    def self_attr(self, e):
        if isinstance(e, ast.Attribute) and isinstance(e.value, ast.Name) and e.value.id == 'self':
            return e.attr
        return None

    def npcall(self, e, name, nargs=None):
        """np.<name>(args) without keywords"""
        if isinstance(e, ast.Call) and isinstance(e.func, ast.Attribute) and isinstance(e.func.value, ast.Name) and e.func.value.id == 'np' \
                and e.func.attr == name and not e.keywords and (nargs is None or len(e.args) == nargs):
            return e.args
        return None

    def is_npnan(self, e):
        return isinstance(e, ast.Attribute) and isinstance(e.value, ast.Name) and e.value.id == 'np' and e.attr == 'nan'

    def comp(self, e, env):
        """[elt for v in range(n) if c] / generator -> (text, type)"""
        if len(e.generators) != 1:
            fail(e, 'comprehension with several generators')
        g = e.generators[0]
        if g.is_async or not isinstance(g.target, ast.Name) or len(g.ifs) > 1:
            fail(e, 'comprehension form')
        it = g.iter
        if not (isinstance(it, ast.Call) and isinstance(it.func, ast.Name) and it.func.id == 'range' and len(it.args) == 1 and not it.keywords):
            fail(e, 'comprehension over something other than range(n)')
        n = self.Z(it.args[0], env)
        v = g.target.id
        env2 = dict(env)
        env2[v] = 'Z'
        src = '(py_range 0 %s 1)' % n
        if g.ifs:
            src = '(filter (fun %s => %s) %s)' % (v, self.cond(g.ifs[0], env2), src)
        if isinstance(e.elt, ast.Name) and e.elt.id == v:
            return src, 'listZ'
        el, ty = self.expr0(e.elt, env2)
        if ty == 'Z':
            return '(map (fun %s => %s) %s)' % (v, el, src), 'listZ'
        if ty == 'slice':
            return '(map (fun %s => %s) %s)' % (v, el, src), 'slices'
        fail(e, 'comprehension element of type %s' % ty)

    def expr0(self, e, env):
        if isinstance(e, ast.Constant):
            if isinstance(e.value, bool):
                return ('true' if e.value else 'false'), 'bool'
            if isinstance(e.value, int):
                return '(%d)' % e.value, 'Z'
            fail(e, 'constant')
        if isinstance(e, ast.Name):
            if e.id not in env:
                fail(e, 'unknown name (not assigned on every path that reaches this point?)')
            return e.id, env[e.id]
        if self.is_npnan(e):
            return 'K_nan', 'res'
        sa = self.self_attr(e)
        if sa == 'ndim':
            return 'self_ndim', 'Z'
        if sa == 'size':
            return 'self_size', 'Z'
        if sa == 'shape':
            return 'self_shape', 'listZ'
        if isinstance(e, ast.Attribute):
            if e.attr in ('ndim', 'shape', 'size', 'codes', 'step'):
                a, ty = self.expr0(e.value, env)
                if e.attr == 'ndim' and ty == 'marr':
                    return '(K_ndim %s)' % a, 'Z'
                if e.attr == 'shape' and ty == 'marr':
                    return '(K_shape %s)' % a, 'listZ'
                if e.attr == 'size' and ty == 'arr':
                    return '(K_size %s)' % a, 'Z'
                if e.attr == 'codes' and ty == 'arr':
                    return '(K_codes %s)' % a, 'arr'
                if e.attr == 'step' and ty == 'ventry':
                    return '(ventry_step %s)' % a, 'optZ'
            fail(e, 'attribute')
        if isinstance(e, ast.UnaryOp) and isinstance(e.op, ast.Not):
            return '(negb %s)' % self.cond(e.operand, env), 'bool'
        if isinstance(e, (ast.BoolOp, ast.Compare)):
            return self.cond(e, env), 'bool'
        if isinstance(e, ast.BinOp):
            if isinstance(e.op, ast.Mult) and self.is_npnan(e.right):
                return '(K_times_nan %s)' % self.expr(e.left, env, 'res')[0], 'res'
            if isinstance(e.op, ast.Div):
                return '(py_truediv %s %s)' % (self.Z(e.left, env), self.Z(e.right, env)), 'ratio'
            if isinstance(e.op, (ast.Add, ast.Sub)):
                return '(%s %s %s)' % (self.Z(e.left, env), '+' if isinstance(e.op, ast.Add) else '-', self.Z(e.right, env)), 'Z'
            fail(e, 'binary operator')
        if isinstance(e, (ast.ListComp, ast.GeneratorExp)):
            return self.comp(e, env)
        if isinstance(e, ast.Tuple) or isinstance(e, ast.List):
            if len(e.elts) == 1 and isinstance(e.elts[0], ast.Name) and env.get(e.elts[0].id) == 'axis':
                return '(AxTuple [axis_int %s])' % e.elts[0].id, 'axis'
            fail(e, 'tuple / list display')
        if isinstance(e, ast.Subscript):
            if isinstance(e.slice, ast.Slice):
                if e.slice.step is not None or e.slice.lower is None or e.slice.upper is None:
                    fail(e, 'slicing form')
                a = self.expr(e.value, env, 'listZ')[0]
                return '(zslice %s %s %s)' % (a, self.Z(e.slice.lower, env), self.Z(e.slice.upper, env)), 'listZ'
            w = self.npcall(e.value, 'where', 1)
            if w is not None and isinstance(e.slice, ast.Constant) and e.slice.value == 0 and not isinstance(e.slice.value, bool):
                return '(K_where0 %s)' % self.expr(w[0], env, 'marr')[0], 'listZ'
            a, ty = self.expr0(e.value, env)
            if ty == 'marr':
                return '(K_mask_getitem %s %s)' % (a, self.expr(e.slice, env, 'slices')[0]), 'marr'
            i = self.Z(e.slice, env)
            if ty == 'listZ':
                return '(znth %s %s)' % (a, i), 'Z'
            if ty in ('slices', 'optslices'):
                return '(snth %s %s)' % (coerce(a, ty, 'slices', e), i), 'slice'
            if ty == 'view':
                return '(vnth %s %s)' % (a, i), 'ventry'
            if ty == 'pairs':
                return '(pnth %s %s)' % (a, i), 'pair'
            fail(e, 'subscript of a value of type %s' % ty)
        if isinstance(e, ast.Call):
            return self.call(e, env)
        fail(e, 'expression')

    def call(self, e, env):
        f = e.func
        if isinstance(f, ast.Name):
            if f.id in ('list', 'tuple') and len(e.args) == 1 and not e.keywords:
                a, ty = self.expr0(e.args[0], env)
                if ty == 'view' and f.id == 'tuple':
                    return '(to_tuple %s)' % a, 'view'
                if ty in ('listZ', 'slices', 'entries'):
                    return a, ty
                fail(e, '%s() of a value of type %s' % (f.id, ty))
            if f.id == 'len' and len(e.args) == 1 and not e.keywords:
                a, ty = self.expr0(e.args[0], env)
                if ty == 'axis':
                    return '(axis_len %s)' % a, 'Z'
                if ty == 'view':
                    return '(view_len %s)' % a, 'Z'
                if ty in ('listZ', 'slices', 'entries', 'pairs'):
                    return '(zlen %s)' % a, 'Z'
                if ty == 'optslices':
                    return '(zlen (unopt %s))' % a, 'Z'
                if ty == 'arr':
                    return '(K_len %s)' % a, 'Z'
                fail(e, 'len of a value of type %s' % ty)
            if f.id == 'max' and len(e.args) == 2 and not e.keywords:
                return '(Z.max %s %s)' % (self.Z(e.args[0], env), self.Z(e.args[1], env)), 'Z'
            if f.id == 'int' and len(e.args) == 1 and not e.keywords and isinstance(e.args[0], ast.BinOp) and isinstance(e.args[0].op, ast.Div):
                return '(py_int_div %s %s)' % (self.Z(e.args[0].left, env), self.expr(e.args[0].right, env, 'ratio')[0]), 'Z'
            if f.id == 'slice' and len(e.args) == 2 and not e.keywords:
                return '(Slice (Some %s) (Some %s) None)' % (self.Z(e.args[0], env), self.Z(e.args[1], env)), 'slice'
            if f.id == 'unbroadcast' and len(e.args) == 1 and not e.keywords:
                a, ty = self.expr0(e.args[0], env)
                if ty == 'marr':
                    return '(K_unbroadcast_mask %s)' % a, 'marr'
                if ty == 'arr':
                    return '(K_unbroadcast_data %s)' % a, 'arr'
                fail(e, 'unbroadcast of a value of type %s' % ty)
            if f.id == 'compute_statistic':
                if len(e.args) != 2 or [k.arg for k in e.keywords] != ['mask', 'axis', 'finite', 'positive', 'percentile']:
                    fail(e, 'call of the numpy kernel glue.utils.compute_statistic: argument list')
                kw = {k.arg: k.value for k in e.keywords}
                return '(K_compute_statistic %s %s %s %s %s %s %s)' % (
                    self.expr(e.args[0], env, 'stat')[0], self.expr(e.args[1], env, 'arr')[0], self.expr(kw['mask'], env, 'optmarr')[0],
                    self.expr(kw['axis'], env, 'axis')[0], self.expr(kw['finite'], env, 'bool')[0], self.expr(kw['positive'], env, 'bool')[0],
                    self.expr(kw['percentile'], env, 'pct')[0]), 'res'
            fail(e, 'call')
        a = self.npcall(e, 'zeros', 1)
        if a is not None:
            x, ty = self.expr0(a[0], env)
            if ty == 'Z':
                return '(K_zeros [%s])' % x, 'res'
            if ty == 'listZ':
                return '(K_zeros %s)' % x, 'res'
            fail(e, 'np.zeros of a value of type %s' % ty)
        a = self.npcall(e, 'broadcast_to', 2)
        if a is not None:
            if self.is_npnan(a[0]):
                return '(K_broadcast_nan %s)' % self.expr(a[1], env, 'listZ')[0], 'res'
            return '(K_broadcast_to %s %s)' % (self.expr(a[0], env, 'marr')[0], self.expr(a[1], env, 'listZ')[0]), 'marr'
        for nm_, k in (('min', 'K_min'), ('max', 'K_max')):
            a = self.npcall(e, nm_, 1)
            if a is not None:
                return '(%s %s)' % (k, self.expr(a[0], env, 'listZ')[0]), 'Z'
        a = self.npcall(e, 'ndim', 1)
        if a is not None:
            return '(K_res_ndim %s)' % self.expr(a[0], env, 'res')[0], 'Z'
        if isinstance(f, ast.Attribute):
            if f.attr == 'any' and not e.args and len(e.keywords) == 1 and e.keywords[0].arg == 'axis':
                return '(K_any_axes %s %s)' % (self.expr(f.value, env, 'marr')[0], self.expr(e.keywords[0].value, env, 'listZ')[0]), 'marr'
            if f.attr == 'get_data' and isinstance(f.value, ast.Name) and f.value.id == 'self':
                if len(e.args) == 2 and not e.keywords:
                    c, v = e.args
                elif len(e.args) == 1 and len(e.keywords) == 1 and e.keywords[0].arg == 'view':
                    c, v = e.args[0], e.keywords[0].value
                elif len(e.args) == 1 and not e.keywords:
                    return '(K_get_data %s PVNone)' % self.expr(e.args[0], env, 'cid')[0], 'arr'
                else:
                    fail(e, 'self.get_data argument list')
                return '(K_get_data %s %s)' % (self.expr(c, env, 'cid')[0], self.expr(v, env, 'view')[0]), 'arr'
            if f.attr in ('to_mask', 'to_array') and isinstance(f.value, ast.Name) and env.get(f.value.id) == 'state' \
                    and len(e.args) == 2 and not e.keywords and isinstance(e.args[0], ast.Name) and e.args[0].id == 'self':
                if f.attr == 'to_mask':
                    return '(K_to_mask %s %s)' % (f.value.id, self.expr(e.args[1], env, 'view')[0]), 'marr'
                return '(K_to_array %s %s)' % (f.value.id, self.expr(e.args[1], env, 'cid')[0]), 'arr'
        fail(e, 'call')

    # ------------------------------------------------------------ conditions
    def cond(self, e, env):
        if isinstance(e, ast.BoolOp):
            op = ' && ' if isinstance(e.op, ast.And) else ' || '
            return '(' + op.join(self.cond(v, env) for v in e.values) + ')'
        if isinstance(e, ast.UnaryOp) and isinstance(e.op, ast.Not):
            return '(negb %s)' % self.cond(e.operand, env)
        if isinstance(e, ast.Constant) and isinstance(e.value, bool):
            return 'true' if e.value else 'false'
        if isinstance(e, ast.Name):
            ty = env.get(e.id)
            if ty == 'bool':
                return e.id
            if ty == 'state':
                return '(K_truthy %s)' % e.id
            if ty == 'optZ':
                return '(oz_truthy %s)' % e.id
            fail(e, 'truth value of a value of type %s' % ty)
        if isinstance(e, ast.Compare) and len(e.ops) == 1:
            op, l, r = e.ops[0], e.left, e.comparators[0]
            if isinstance(op, (ast.Is, ast.IsNot)):
                a, ty = self.expr0(l, env)
                if isinstance(r, ast.Constant) and r.value is None:
                    fn = {'view': 'view_is_none', 'axis': 'axis_is_none', 'optmarr': 'is_none', 'optslices': 'is_none', 'optZ': 'is_none',
                          'optharr': 'is_none', 'optbools': 'is_none', 'optcid': 'is_none', 'state': 'H_state_is_none'}.get(ty)
                    if fn is None:
                        fail(e, '`is None` on a value of type %s (it can never be None here)' % ty)
                    t = '(%s %s)' % (fn, a)
                elif isinstance(r, ast.Name) and r.id == 'Ellipsis' and ty == 'view':
                    t = '(view_is_ellipsis %s)' % a
                else:
                    fail(e, 'identity test')
                return t if isinstance(op, ast.Is) else '(negb %s)' % t
            if isinstance(l, ast.Name) and env.get(l.id) == 'stat' and isinstance(op, (ast.In, ast.NotIn, ast.Eq, ast.NotEq)):
                # statistic == 'sum' | statistic [not] in ('sum', 'percentile'): the names of the statistics are numbered (STAT_CODES)
                names = [r] if isinstance(op, (ast.Eq, ast.NotEq)) else (list(r.elts) if isinstance(r, (ast.Tuple, ast.List)) else None)
                if names is None or not all(isinstance(x, ast.Constant) and x.value in STAT_CODES for x in names):
                    fail(e, 'test of the statistic against something other than names of statistics')
                t = '(existsb (Z.eqb (K_stat_code %s)) [%s])' % (l.id, '; '.join('(%d)' % STAT_CODES[x.value] for x in names))
                return t if isinstance(op, (ast.In, ast.Eq)) else '(negb %s)' % t
            if isinstance(op, (ast.In, ast.NotIn)):
                t = '(axis_mem %s %s)' % (self.Z(l, env), self.expr(r, env, 'axis')[0])
                return t if isinstance(op, ast.In) else '(negb %s)' % t
            a, ta = self.expr0(l, env)
            b, tb = self.expr0(r, env)
            if ta == 'optZ' and tb == 'Z' and isinstance(op, (ast.Eq, ast.NotEq)):
                t = '(oz_eqb %s %s)' % (a, b)
                return t if isinstance(op, ast.Eq) else '(negb %s)' % t
            if ta == 'Z' and tb == 'optZ' and type(op) in CMP:
                # `data.size > random_subset` behind the truth test of random_subset
                return '(%s %s oz_get %s)' % (a, CMP[type(op)], b)
            if ta == 'Z' and tb == 'Z':
                if type(op) in CMP:
                    return '(%s %s %s)' % (a, CMP[type(op)], b)
                if isinstance(op, ast.NotEq):
                    return '(negb (%s =? %s))' % (a, b)
            return self.cond_extra(e, env)
        if isinstance(e, ast.Call) and isinstance(e.func, ast.Name) and e.func.id == 'isinstance' and len(e.args) == 2 and not e.keywords:
            a, ty = self.expr0(e.args[0], env)
            k = ast.unparse(e.args[1])
            table = {('view', 'list'): 'view_is_list %s', ('view', 'tuple'): 'view_is_tuple %s',
                     ('view', '(list, tuple)'): '(view_is_list %s || view_is_tuple %s)',
                     ('axis', 'int'): 'axis_is_int %s', ('axis', 'tuple'): 'axis_is_tuple %s',
                     ('state', 'SliceSubsetState'): 'K_is_slice_state %s', ('ventry', 'slice'): 'ventry_is_slice %s',
                     ('arr', 'categorical_ndarray'): 'K_is_categorical %s'}
            if (ty, k) in table:
                return '(' + table[(ty, k)].replace('%s', a) + ')'
            fail(e, 'isinstance test')
        a = self.npcall(e, 'any', 1)
        if a is not None:
            return '(K_any %s)' % self.expr(a[0], env, 'marr')[0]
        return self.cond_extra(e, env)

    def cond_extra(self, e, env):
        fail(e, 'condition')

    # ------------------------------------------------------------ statements
    def tuple_of(self, names):
        return names[0] if len(names) == 1 else '(' + ', '.join(names) + ')'

    def tuple_type(self, tys):
        return GT[tys[0]] if len(tys) == 1 else '(' + ' * '.join(GT[t] for t in tys) + ')'

    def probe(self, stmts, env, J, mode):
        """types of the variables J where control falls through stmts (None when it never does)"""
        seen = []

        def fall(env2):
            seen.append([env2.get(x) for x in J])
            return ''
        self.block(stmts, env, fall, fall, mode, dry=True)
        return seen

    def join_types(self, branches, env, J, mode, node):
        tys = None
        for b in branches:
            for row in self.probe(b, env, J, mode):
                if None in row:
                    fail(node, 'variable %s is not assigned on every path' % J[row.index(None)])
                tys = row if tys is None else [unify(x, y, node) for x, y in zip(tys, row)]
        return tys

    def block(self, stmts, env, fall, brk, mode, dry=False):
        """stmts -> Gallina text.  fall(env) = what follows when control falls through; brk(env) = what a `break` produces;
        mode: 'fn' (type result res: return allowed), 'pure' (loop body), 'monad' (loop body in the error monad)"""
        stmts = [s for s in stmts if not is_doc(s)]
        if not stmts:
            return fall(env)
        s, rest = stmts[0], stmts[1:]
        env = dict(env)
        nxt = lambda: self.block(rest, env, fall, brk, mode, dry)  # noqa
        if isinstance(s, ast.Pass):
            return nxt()
        if isinstance(s, ast.Return):
            if rest or mode != 'fn' or s.value is None:
                fail(s, 'return (inside a loop, or followed by code)')
            return 'Ok %s' % self.expr(s.value, env, self.rettype)[0]
        if isinstance(s, ast.Raise):
            if rest or mode != 'fn' or ast.unparse(s.exc) != 'NotImplementedError()':
                fail(s, 'raise')
            return 'Err NotImplemented'
        if isinstance(s, ast.Break):
            if rest or brk is None:
                fail(s, 'break')
            return brk(env)
        if isinstance(s, ast.Expr) and isinstance(s.value, ast.Call) and isinstance(s.value.func, ast.Attribute) and s.value.func.attr == 'append' \
                and isinstance(s.value.func.value, ast.Name) and len(s.value.args) == 1 and not s.value.keywords:
            l = s.value.func.value.id
            ty = env.get(l)
            elt = {'slices': 'slice', 'entries': 'ventry', 'listZ': 'Z'}.get(ty)
            if elt is None:
                fail(s, 'append to a value of type %s' % ty)
            return 'let %s := %s ++ [%s] in\n%s' % (l, l, self.expr(s.value.args[0], env, elt)[0], nxt())
        if isinstance(s, ast.AugAssign) and isinstance(s.target, ast.Name) and isinstance(s.op, ast.Add) and env.get(s.target.id) == 'Z':
            return 'let %s := %s + %s in\n%s' % (s.target.id, s.target.id, self.Z(s.value, env), nxt())
        if isinstance(s, ast.Assign) and len(s.targets) == 1:
            return self.assign(s, rest, env, fall, brk, mode, dry)
        if isinstance(s, ast.If):
            return self.if_(s, rest, env, fall, brk, mode, dry)
        if isinstance(s, ast.For):
            return self.for_(s, rest, env, fall, brk, mode, dry)
        return self.stmt_extra(s, rest, env, fall, brk, mode, dry)

    def stmt_extra(self, s, rest, env, fall, brk, mode, dry):
        fail(s, 'statement')

    def assign(self, s, rest, env, fall, brk, mode, dry):
        t, v = s.targets[0], s.value
        nxt = lambda: self.block(rest, env, fall, brk, mode, dry)  # noqa
        if isinstance(t, ast.Tuple):
            # a, b, _ = <slice>.indices(n)
            if not (len(t.elts) == 3 and all(isinstance(x, ast.Name) for x in t.elts) and isinstance(v, ast.Call) and isinstance(v.func, ast.Attribute)
                    and v.func.attr == 'indices' and len(v.args) == 1 and not v.keywords):
                fail(s, 'tuple assignment')
            o, ty = self.expr0(v.func.value, env)
            fn = {'ventry': 'ventry_indices', 'slice': 'indices_t'}.get(ty)
            if fn is None:
                fail(s, '.indices of a value of type %s' % ty)
            for x in t.elts:
                if x.id != '_':
                    env[x.id] = 'Z'
            return "let '(%s) := %s %s %s in\n%s" % (', '.join(x.id for x in t.elts), fn, o, self.Z(v.args[0], env), nxt())
        if isinstance(t, ast.Subscript) and isinstance(t.value, ast.Name):
            l = t.value.id
            ty = env.get(l)
            if ty == 'listZ':
                return 'let %s := zupd %s %s %s in\n%s' % (l, l, self.Z(t.slice, env), self.Z(v, env), nxt())
            if ty == 'res':
                i, ti = self.expr0(t.slice, env)
                if ti == 'pair':
                    i = '[slice_of_pair %s]' % i
                elif ti in ('slices', 'optslices'):
                    i = coerce(i, ti, 'slices', s)
                else:
                    fail(s, 'index of a result array of type %s' % ti)
                return 'let %s := K_setitem %s %s %s in\n%s' % (l, l, i, self.expr(v, env, 'res')[0], nxt())
            fail(s, 'item assignment on a value of type %s' % ty)
        if not isinstance(t, ast.Name):
            fail(s, 'assignment target')
        x = t.id
        if x in self.params:
            if x not in ('view', 'axis'):
                fail(s, 'assignment to the parameter %s' % x)
        # the recursive call
        if isinstance(v, ast.Call) and isinstance(v.func, ast.Attribute) and isinstance(v.func.value, ast.Name) and v.func.value.id == 'self' \
                and v.func.attr == self.name:
            if mode == 'pure':
                fail(s, 'recursive call in a pure loop')
            args = self.rec_args(v, env)
            env[x] = self.rettype
            return 'match self_rec %s with Err e_ => Err e_ | Ok %s =>\n%s end' % (' '.join(args), x, nxt())
        if (isinstance(v, ast.Constant) and v.value is None) or (isinstance(v, ast.List) and not v.elts):
            # a literal without a type of its own: the type is the one under which the rest of the function translates
            # (the usual name first, so that the output does not depend on the search order)
            if isinstance(v, ast.Constant):
                cands = [NONE_TYPE.get(x)] + [t for t in self.NONE_CANDIDATES if t != NONE_TYPE.get(x)]
            else:
                cands = [EMPTY_TYPE.get(x)] + [t for t in ('slices', 'entries', 'listZ') if t != EMPTY_TYPE.get(x)]
            first = None
            for ty in [t for t in cands if t]:
                saved = (list(self.loops), getattr(self, 'nloop', 0))
                try:
                    env2 = dict(env)
                    env2[x] = ty
                    val = ('PVNone' if ty == 'view' else 'None') if isinstance(v, ast.Constant) else '[]'
                    return 'let %s : %s := %s in\n%s' % (x, GT[ty], val, self.block(rest, env2, fall, brk, mode, dry))
                except Unsupported as e:
                    self.loops, self.nloop = saved
                    first = first or e
            raise first or Unsupported('line %s: literal of unknown type assigned to %s' % (s.lineno, x))
        a, ty = self.expr0(v, env)
        if x == 'view' or (env.get(x) == 'entries' and ty == 'view'):
            want = 'view' if x == 'view' else 'entries'
            a = coerce(a, ty, want, s)
            ty = want
        env[x] = ty
        return 'let %s : %s := %s in\n%s' % (x, GT[ty], a, nxt())

    def rec_args(self, call, env):
        a = self.fn.args
        names = [x.arg for x in a.args][1:]
        defaults = dict(zip(names[len(names) - len(a.defaults):], a.defaults))
        given = dict(zip(names, call.args))
        for k in call.keywords:
            if k.arg is None or k.arg not in names or k.arg in given:
                fail(call, 'argument list of the recursive call')
            given[k.arg] = k.value
        out = []
        for n in names:
            ty = self.params[n]
            if n in given:
                e = given[n]
                if isinstance(e, ast.Name) and env.get(e.id) == 'pairs' and ty == 'view':
                    out.append('(view_of_chunk %s)' % e.id)
                else:
                    out.append(self.expr(e, env, ty)[0])
            elif n in defaults:
                out.append(self.default(n, defaults[n], call))
            else:
                fail(call, 'argument %s of the recursive call is missing' % n)
        return out

    def default(self, n, d, node):
        ty = self.params[n]
        if isinstance(d, ast.Constant):
            if d.value is None and ty in ('view', 'axis', 'optZ'):
                return {'view': 'PVNone', 'axis': 'AxNone', 'optZ': 'None'}[ty]
            if isinstance(d.value, bool) and ty == 'bool':
                return 'true' if d.value else 'false'
            if isinstance(d.value, int) and not isinstance(d.value, bool) and ty == 'Z':
                return '(%d)' % d.value
        fail(node, 'default value of %s' % n)

    def if_(self, s, rest, env, fall, brk, mode, dry):
        # the random_subset block
        special = self.if_extra(s, rest, env, fall, brk, mode, dry)
        if special is not None:
            return special
        c = self.cond(s.test, env)
        B = lambda st, f=fall: self.block(st, env, f, brk, mode, dry)  # noqa
        if not rest:
            return 'if %s then\n%s\nelse\n%s' % (c, B(s.body), B(s.orelse))
        if always_terminal(s.body):
            return 'if %s then\n%s\nelse\n%s' % (c, B(s.body), B(list(s.orelse) + rest))
        if s.orelse and always_terminal(s.orelse):
            return 'if %s then\n%s\nelse\n%s' % (c, B(list(s.body) + rest), B(s.orelse))
        # variables that are joined
        J = [x for x in assigned_any([s]) if x in env]
        for x in assigned_all([s]):
            if x not in J:
                J.append(x)
        tys = self.join_types([s.body, s.orelse], env, J, mode, s)
        if tys is None:
            fail(s, 'no path falls through')
        env2 = dict(env)
        for x, ty in zip(J, tys):
            env2[x] = ty
        tup = lambda e2: self.tuple_of([coerce(x, e2[x], ty, s) for x, ty in zip(J, tys)]) if J else 'tt'  # noqa
        pat = ("'" + self.tuple_of(J)) if len(J) > 1 else (J[0] if J else '_')
        after = self.block(rest, env2, fall, brk, mode, dry)
        if not has_exit([s]):
            return 'let %s := (if %s then\n%s\nelse\n%s) in\n%s' % (pat, c, B(s.body, tup), B(s.orelse, tup), after)
        self.nk += 1
        k = 'k%d_' % s.lineno if False else 'k_%d' % self.knum(s)
        call = lambda e2: '%s %s' % (k, tup(e2))  # noqa
        tyt = self.tuple_type(tys) if J else 'unit'
        head = 'let %s := fun (st_ : %s) => ' % (k, tyt)
        if J:
            head += "let %s := st_ in\n" % (pat if len(J) > 1 else J[0])
        else:
            head += '\n'
        return '%s%s in\nif %s then\n%s\nelse\n%s' % (head, after, c, B(s.body, call), B(s.orelse, call))

    def knum(self, s):
        self.kmap = getattr(self, 'kmap', {})
        if id(s) not in self.kmap:
            self.kmap[id(s)] = len(self.kmap) + 1
        return self.kmap[id(s)]

    def if_extra(self, s, rest, env, fall, brk, mode, dry):
        return None

    def for_(self, s, rest, env, fall, brk, mode, dry):
        if s.orelse or not isinstance(s.target, ast.Name):
            fail(s, 'for form')
        it = s.iter
        x = s.target.id
        pre = post = ''
        if isinstance(it, ast.Call) and isinstance(it.func, ast.Name) and it.func.id == 'range' and len(it.args) == 1 and not it.keywords:
            seq, xty = '(py_range 0 %s 1)' % self.Z(it.args[0], env), 'Z'
        elif isinstance(it, ast.Call) and isinstance(it.func, ast.Name) and it.func.id == 'iterate_chunks' and len(it.args) == 1 \
                and [k.arg for k in it.keywords] in (['chunk_shape'], ['n_max']):
            if mode != 'fn':
                fail(s, 'iterate_chunks in a nested loop')
            kw = it.keywords[0]
            a = ('(Some %s) None' % self.expr(kw.value, env, 'listZ')[0]) if kw.arg == 'chunk_shape' else ('None (Some %s)' % self.Z(kw.value, env))
            pre = 'match iterate_chunks fuel %s %s with Err e_ => Err e_ | Ok chunks_ =>\n' % (self.expr(it.args[0], env, 'listZ')[0], a)
            post = ' end'
            seq, xty = 'chunks_', 'pairs'
        else:
            fail(s, 'loop over something other than range(n) / iterate_chunks(shape, chunk_shape=..)')
        state = [v for v in assigned_any(s.body) if v in env]
        if not state:
            fail(s, 'loop without state')
        monadic = any(isinstance(n, ast.Attribute) and n.attr == self.name and isinstance(n.value, ast.Name) and n.value.id == 'self'
                      for b in s.body for n in ast.walk(b))
        has_brk = any(isinstance(n, ast.Break) for b in s.body for n in ast.walk(b))
        if monadic and has_brk:
            fail(s, 'break in a loop that calls %s' % self.name)
        tys = [env[v] for v in state]
        env2 = dict(env)
        env2[x] = xty

        def mk(flag):
            def f(e2):
                for v, ty in zip(state, tys):
                    if e2.get(v) != ty:
                        fail(s, 'loop variable %s changes its type from %s to %s' % (v, ty, e2.get(v)))
                t = self.tuple_of(state + ([flag] if has_brk else []))
                return ('Ok %s' % t) if monadic else t
            return f
        body = self.block(s.body, env2, mk('false'), mk('true') if has_brk else None, 'monad' if monadic else 'pure', dry)
        if dry:
            return self.block(rest, env, fall, brk, mode, dry)
        self.nloop = getattr(self, 'nloop', 0) + 1
        lname = '%s_loop%d' % (self.name, self.nloop)
        free = [v for v in env if v not in state and v != x and re.search(r'(?<![A-Za-z0-9_\'])%s(?![A-Za-z0-9_\'])' % re.escape(v), body)]
        sty = self.tuple_type(tys + (['bool'] if has_brk else []))
        pat = self.tuple_of(state + (['brk_'] if has_brk else []))
        text = 'Definition %s %s (st_ : %s) (%s : %s) : %s :=\n' % (
            lname, ' '.join('(%s : %s)' % (v, GT[env[v]]) for v in free), sty, x, GT[xty], ('result %s' % sty) if monadic else sty)
        text += ("let '%s := st_ in\n" % pat) if len(state) + has_brk > 1 else ('let %s := st_ in\n' % state[0])
        if has_brk:
            text += 'if brk_ then st_ else\n'
        text += body + '.\n'
        self.loops.append(text)
        fn = '%s %s' % (lname, ' '.join(free)) if free else lname
        init = self.tuple_of(state + (['false'] if has_brk else []))
        after = self.block(rest, env, fall, brk, mode, dry)
        if monadic:
            return ('%smatch fold_left (fun acc_ x_ => match acc_ with Err e_ => Err e_ | Ok st_ => %s st_ x_ end) %s (Ok %s) with Err e_ => Err e_ | Ok %s =>\n%s end%s'
                    % (pre, fn, seq, init, ("'" + pat) if len(state) > 1 else pat, after, post))
        return "%slet %s := fold_left (%s) %s %s in\n%s%s" % (pre, ("'" + pat) if len(state) + has_brk > 1 else pat, fn, seq, init, after, post)


class Stat(Fn):
    """Data.compute_statistic"""
    rettype = 'res'
    PARAMS = [('statistic', 'stat'), ('cid', 'cid'), ('subset_state', 'state'), ('axis', 'axis'), ('finite', 'bool'), ('positive', 'bool'),
              ('percentile', 'pct'), ('view', 'view'), ('random_subset', 'optZ'), ('n_chunk_max', 'Z')]

    def __init__(self, fn):
        Fn.__init__(self, fn, 'compute_statistic')
        a = fn.args
        if [x.arg for x in a.args] != ['self'] + [p for p, _ in self.PARAMS] or a.vararg or a.kwarg or a.kwonlyargs or fn.decorator_list:
            fail(fn, 'signature of Data.compute_statistic')
        self.params = dict(self.PARAMS)
        want = {'subset_state': None, 'axis': None, 'finite': True, 'positive': False, 'percentile': None, 'view': None, 'random_subset': None}
        names = [p for p, _ in self.PARAMS]
        defaults = dict(zip(names[len(names) - len(a.defaults):], a.defaults))
        for k, v in want.items():
            if not (k in defaults and isinstance(defaults[k], ast.Constant) and defaults[k].value is v):
                fail(fn, 'default of %s' % k)
        d = defaults.get('n_chunk_max')
        if not (isinstance(d, ast.Constant) and isinstance(d.value, int) and not isinstance(d.value, bool)):
            fail(fn, 'default of n_chunk_max')
        self.n_chunk_max_default = d.value

    def if_extra(self, s, rest, env, fall, brk, mode, dry):
        if ast.unparse(s.test) == 'random_subset and data.size > random_subset':
            if s.orelse or '\n'.join(ast.unparse(b) for b in s.body) != RANDOM_STAT:
                fail(s, 'the body of the random_subset block differs from the template')
            c = self.cond(s.test, env)
            if env.get('data') != 'arr' or env.get('mask') != 'optmarr':
                fail(s, 'types of data / mask at the random_subset block')
            return "let '(data, mask) := (if %s then K_random_subset data mask random_subset else (data, mask)) in\n%s" % (
                c, self.block(rest, env, fall, brk, mode, dry))
        return None

    def translate(self):
        env = {'self_rec': 'rec', 'fuel': 'fuel'}
        env.update(self.params)
        body = self.block(self.fn.body, env, lambda e: fail(self.fn, 'the function can fall off its end'), None, 'fn')
        args = ' '.join('(%s : %s)' % (p, GT[t]) for p, t in self.PARAMS)
        names = ' '.join(p for p, _ in self.PARAMS)
        out = '(* ---- Data.compute_statistic (glue/core/data.py) ---- *)\n'
        out += 'Definition rec_t : Type := %s -> result res.\n\n' % ' -> '.join(GT[t] for _, t in self.PARAMS)
        out += '\n'.join(self.loops) + '\n'
        out += 'Definition compute_statistic_step (self_rec : rec_t) (fuel : nat) %s : result res :=\n%s.\n\n' % (args, body)
        out += ('(* the recursion self.compute_statistic(.., view=chunk_view) on explicit fuel *)\n'
                'Fixpoint compute_statistic (rfuel fuel : nat) {struct rfuel} : rec_t :=\n'
                '  match rfuel with\n  | O => fun %s => Err OutOfFuel\n  | S rfuel_ => compute_statistic_step (compute_statistic rfuel_ fuel) fuel\n  end.\n\n'
                % ' '.join('_' for _ in self.PARAMS))
        out += 'Definition n_chunk_max_default : Z := %d.\n' % self.n_chunk_max_default
        return out



# ====================================================================== Data.compute_histogram
RANDOM_HIST = """original_size = x.size
if DASK_INSTALLED and isinstance(x, da.Array):
    random_subset_indices_dask = (x.size, random_views_for_dask_array(x, random_subset, n_chunks=10))
    x = da.hstack([x[slices].ravel() for slices in random_subset_indices_dask[1]])
    if ndim > 1:
        y = da.hstack([y[slices].ravel() for slices in random_subset_indices_dask[1]])
    if w is not None:
        w = da.hstack([w[slices].ravel() for slices in random_subset_indices_dask[1]])
else:
    if not hasattr(self, '_random_subset_histogram_indices') or self._random_subset_histogram_indices[0] != x.shape:
        self._random_subset_histogram_indices = (x.shape, random_indices_for_array(x, random_subset))
    x = x[self._random_subset_histogram_indices[1]]
    if ndim > 1:
        y = y[self._random_subset_histogram_indices[1]]
    if w is not None:
        w = w[self._random_subset_histogram_indices[1]]
correction = original_size / x.size"""

DASK_SKIP = [
    """if DASK_INSTALLED and ndim > 1:
    if isinstance(x, da.Array) and (not isinstance(y, da.Array)):
        y = da.asarray(y)
    if not isinstance(x, da.Array) and isinstance(y, da.Array):
        x = da.asarray(x)""",
    """if DASK_INSTALLED:
    if isinstance(x, da.Array):
        x = np.asarray(x.compute())
    if ndim > 1 and isinstance(y, da.Array):
        y = np.asarray(y.compute())
    if isinstance(w, da.Array):
        w = np.asarray(w.compute())""",
]


class Hist(Fn):
    """Data.compute_histogram.  Additional forms:
    statements    a, b = <pair> ; (a, b), (c, d) = range ; k &= <bool array> ; n += <number>  (numbers: range ends)
                  if DASK_INSTALLED and isinstance(v, da.Array) and not isinstance(mask, da.Array): v = v[da.asarray(mask)] else: v = v[mask]
                      -> the numpy branch `v = v[mask]` (dask is outside the model; the dask branch is compared with this template)
                  the two `if DASK_INSTALLED ...` conversion blocks (templates, skipped)
                  if random_subset and x.size > random_subset: <template> else: correction = 1.0
                  falling off the end of the function (no cids) returns None: Ok H_none_res
    expressions   len(cids), cids[i], self.get_data(c), self.get_mask(subset_state), a[<bool array>], (a >= n) & (a <= n) & ..,
                  ~np.isnan(a), a.dtype.kind == 'M', datetime64_to_mpl(a | n), sorted((n, m)), range[i], log[i], bins[i], len(a),
                  n < 0 (numbers against int literals), n == m, n + 1, 10 * np.spacing(np.abs(n)), np.log10(a | n), np.zeros(bins),
                  histogram1d(x, range=.., bins=.., weights=..) * correction, histogram2d(x, y, range=.., bins=.., weights=..) * correction
    """
    rettype = 'hres'
    NONE_CANDIDATES = ('optharr',)
    PARAMS = [('cids', 'cids'), ('weights', 'optcid'), ('range', 'ranges'), ('bins', 'listZ'), ('log', 'optbools'), ('subset_state', 'state'),
              ('random_subset', 'optZ')]

    def __init__(self, fn):
        Fn.__init__(self, fn, 'compute_histogram')
        a = fn.args
        if [x.arg for x in a.args] != ['self'] + [p for p, _ in self.PARAMS] or a.vararg or a.kwarg or a.kwonlyargs or fn.decorator_list:
            fail(fn, 'signature of Data.compute_histogram')
        if len(a.defaults) != 6 or not all(isinstance(d, ast.Constant) and d.value is None for d in a.defaults):
            fail(fn, 'defaults of Data.compute_histogram')
        self.params = dict(self.PARAMS)

    def num(self, e, env):
        """a range end, or an int literal in a numeric position"""
        if isinstance(e, ast.Constant) and isinstance(e.value, int) and not isinstance(e.value, bool):
            return '(H_num_of_Z %d)' % e.value
        return self.expr(e, env, 'num')[0]

    def expr0(self, e, env):
        if isinstance(e, ast.Name) and e.id == 'range' and 'range' in env:
            return 'range_', env['range']
        if isinstance(e, ast.Constant) and isinstance(e.value, float) and e.value == 1.0:
            return 'H_corr_one', 'corr'
        if isinstance(e, ast.Attribute) and e.attr == 'codes':
            a, ty = self.expr0(e.value, env)
            if ty == 'harr':
                return '(H_codes %s)' % a, 'harr'
        if isinstance(e, ast.Subscript) and not isinstance(e.slice, ast.Slice):
            a, ty = self.expr0(e.value, env)
            if ty in ('harr', 'optharr'):
                return '(H_index %s %s)' % (coerce(a, ty, 'harr', e), self.expr(e.slice, env, 'barr')[0]), 'harr'
            if ty == 'cids':
                return '(cnth H_no_cid %s %s)' % (a, self.Z(e.slice, env)), 'cid'
            if ty == 'ranges':
                return '(rnth H_no_num %s %s)' % (a, self.Z(e.slice, env)), 'numpair'
            if ty == 'optbools':
                return '(bnth (unopt %s) %s)' % (a, self.Z(e.slice, env)), 'bool'
        if isinstance(e, ast.Tuple) and len(e.elts) == 2:
            return '(%s, %s)' % (self.num(e.elts[0], env), self.num(e.elts[1], env)), 'numpair'
        if isinstance(e, ast.BinOp):
            if isinstance(e.op, ast.BitAnd):
                return '(H_and %s %s)' % (self.expr(e.left, env, 'barr')[0], self.expr(e.right, env, 'barr')[0]), 'barr'
            if isinstance(e.op, ast.Add):
                a, ty = self.expr0(e.left, env)
                if ty == 'num':
                    return '(H_num_add %s %s)' % (a, self.num(e.right, env)), 'num'
            if isinstance(e.op, ast.Mult):
                if isinstance(e.left, ast.Constant) and isinstance(e.left.value, int):
                    b, tb = self.expr0(e.right, env)
                    if tb == 'num':
                        return '(H_num_mul %s %s)' % (self.num(e.left, env), b), 'num'
                a, ty = self.expr0(e.left, env)
                if ty == 'hres':
                    return '(H_scale %s %s)' % (a, self.expr(e.right, env, 'corr')[0]), 'hres'
        if isinstance(e, ast.UnaryOp) and isinstance(e.op, ast.Invert):
            return '(H_not %s)' % self.expr(e.operand, env, 'barr')[0], 'barr'
        if isinstance(e, ast.Compare) and len(e.ops) == 1:
            a, ta = self.expr0(e.left, env)
            if ta == 'harr' and isinstance(e.ops[0], (ast.GtE, ast.LtE)):
                return '(%s %s %s)' % ('H_ge' if isinstance(e.ops[0], ast.GtE) else 'H_le', a, self.num(e.comparators[0], env)), 'barr'
        if isinstance(e, ast.Call):
            f = e.func
            if isinstance(f, ast.Attribute) and isinstance(f.value, ast.Name) and f.value.id == 'self' and not e.keywords and len(e.args) == 1:
                if f.attr == 'get_data':
                    return '(H_get_data %s)' % self.expr(e.args[0], env, 'cid')[0], 'harr'
                if f.attr == 'get_mask':
                    return '(H_get_mask %s)' % self.expr(e.args[0], env, 'state')[0], 'barr'
            for nm_, arr_op, num_op in (('isnan', 'H_isnan', None), ('log10', 'H_log10_arr', 'H_log10'), ('abs', None, 'H_abs'),
                                        ('spacing', None, 'H_spacing')):
                a = self.npcall(e, nm_, 1)
                if a is not None:
                    x, ty = self.expr0(a[0], env)
                    if ty == 'harr' and arr_op:
                        return '(%s %s)' % (arr_op, x), ('barr' if nm_ == 'isnan' else 'harr')
                    if ty == 'num' and num_op:
                        return '(%s %s)' % (num_op, x), 'num'
                    fail(e, 'np.%s of a value of type %s' % (nm_, ty))
            a = self.npcall(e, 'zeros', 1)
            if a is not None and isinstance(a[0], ast.Name) and a[0].id == 'bins':
                return '(H_zeros bins)', 'hres'
            if isinstance(f, ast.Name):
                if f.id == 'len' and len(e.args) == 1 and not e.keywords:
                    x, ty = self.expr0(e.args[0], env)
                    if ty == 'cids':
                        return '(zlen %s)' % x, 'Z'
                    if ty == 'harr':
                        return '(H_len %s)' % x, 'Z'
                if f.id == 'datetime64_to_mpl' and len(e.args) == 1 and not e.keywords:
                    x, ty = self.expr0(e.args[0], env)
                    if ty == 'harr':
                        return '(H_dt_arr %s)' % x, 'harr'
                    if ty == 'num':
                        return '(H_dt_num %s)' % x, 'num'
                if f.id == 'sorted' and len(e.args) == 1 and not e.keywords and isinstance(e.args[0], ast.Tuple) and len(e.args[0].elts) == 2:
                    return '(py_sorted2 %s %s)' % (self.num(e.args[0].elts[0], env), self.num(e.args[0].elts[1], env)), 'numpair'
                if f.id == 'histogram1d' and len(e.args) == 1 and [k.arg for k in e.keywords] == ['range', 'bins', 'weights']:
                    kw = {k.arg: k.value for k in e.keywords}
                    return '(H_histogram1d %s %s %s %s)' % (self.expr(e.args[0], env, 'harr')[0], self.expr(kw['range'], env, 'numpair')[0],
                                                            self.Z(kw['bins'], env), self.expr(kw['weights'], env, 'optharr')[0]), 'hres'
                if f.id == 'histogram2d' and len(e.args) == 2 and [k.arg for k in e.keywords] == ['range', 'bins', 'weights']:
                    kw = {k.arg: k.value for k in e.keywords}
                    return '(H_histogram2d %s %s %s %s %s)' % (self.expr(e.args[0], env, 'harr')[0], self.expr(e.args[1], env, 'harr')[0],
                                                               self.expr(kw['range'], env, 'ranges')[0], self.expr(kw['bins'], env, 'listZ')[0],
                                                               self.expr(kw['weights'], env, 'optharr')[0]), 'hres'
        if isinstance(e, ast.List) and len(e.elts) == 2 and all(isinstance(x, ast.Tuple) for x in e.elts):
            return '[%s; %s]' % (self.expr(e.elts[0], env, 'numpair')[0], self.expr(e.elts[1], env, 'numpair')[0]), 'ranges'
        return Fn.expr0(self, e, env)

    def cond(self, e, env):
        if ast.unparse(e) in ("x.dtype.kind == 'M'", "y.dtype.kind == 'M'"):
            return '(H_is_datetime %s)' % e.left.value.value.id
        if isinstance(e, ast.Compare) and len(e.ops) == 1:
            l, r, op = e.left, e.comparators[0], e.ops[0]
            try:
                ta = self.expr0(l, env)[1]
            except Unsupported:
                ta = None
            if ta == 'num':
                if isinstance(op, ast.Lt):
                    return '(H_num_lt %s %s)' % (self.num(l, env), self.num(r, env))
                if isinstance(op, ast.Eq):
                    return '(H_num_eq %s %s)' % (self.num(l, env), self.num(r, env))
                fail(e, 'comparison of numbers')
        if isinstance(e, ast.Call) and isinstance(e.func, ast.Name) and e.func.id == 'isinstance' and len(e.args) == 2 \
                and ast.unparse(e.args[1]) == 'categorical_ndarray':
            a, ty = self.expr0(e.args[0], env)
            if ty == 'harr':
                return '(H_is_categorical %s)' % a
        if isinstance(e, ast.Subscript):
            t, ty = self.expr0(e, env)
            if ty == 'bool':
                return t
        return Fn.cond(self, e, env)

    def block(self, stmts, env, fall, brk, mode, dry=False):
        stmts = [s for s in stmts if not is_doc(s)]
        if stmts:
            s, rest = stmts[0], stmts[1:]
            nxt = lambda e2: self.block(rest, e2, fall, brk, mode, dry)  # noqa
            env = dict(env)
            if isinstance(s, ast.If) and ast.unparse(s) in DASK_SKIP:
                return nxt(env)
            if isinstance(s, ast.Assign) and len(s.targets) == 1 and isinstance(s.targets[0], ast.Tuple):
                t = s.targets[0]
                if len(t.elts) == 2 and all(isinstance(x, ast.Name) for x in t.elts):
                    v = self.expr(s.value, env, 'numpair')[0]
                    for x in t.elts:
                        env[x.id] = 'num'
                    return "let '(%s, %s) := %s in\n%s" % (t.elts[0].id, t.elts[1].id, v, nxt(env))
                if len(t.elts) == 2 and all(isinstance(x, ast.Tuple) and len(x.elts) == 2 and all(isinstance(y, ast.Name) for y in x.elts) for x in t.elts):
                    v = self.expr(s.value, env, 'ranges')[0]
                    names = [y.id for x in t.elts for y in x.elts]
                    for x in names:
                        env[x] = 'num'
                    return "let '((%s, %s), (%s, %s)) := (rnth H_no_num %s 0, rnth H_no_num %s 1) in\n%s" % (tuple(names) + (v, v, nxt(env)))
                fail(s, 'tuple assignment')
            if isinstance(s, ast.Assign) and len(s.targets) == 1 and isinstance(s.targets[0], ast.Name) and s.targets[0].id == 'range':
                v, ty = self.expr0(s.value, env)
                env['range'] = ty
                return 'let range_ : %s := %s in\n%s' % (GT[ty], v, nxt(env))
            if isinstance(s, ast.Assign) and len(s.targets) == 1 and isinstance(s.targets[0], ast.Name) and s.targets[0].id in ('x', 'y', 'w') \
                    and env.get(s.targets[0].id) == 'optharr':
                # w = w[mask] : w is an optional array that is not None here
                v = self.expr(s.value, env, 'harr')[0]
                env[s.targets[0].id] = 'harr'
                return 'let %s : harr := %s in\n%s' % (s.targets[0].id, v, nxt(env))
            if isinstance(s, ast.AugAssign) and isinstance(s.target, ast.Name):
                x = s.target.id
                if isinstance(s.op, ast.BitAnd) and env.get(x) == 'barr':
                    return 'let %s := H_and %s %s in\n%s' % (x, x, self.expr(s.value, env, 'barr')[0], nxt(env))
                if isinstance(s.op, ast.Add) and env.get(x) == 'num':
                    return 'let %s := H_num_add %s %s in\n%s' % (x, x, self.num(s.value, env), nxt(env))
        return Fn.block(self, stmts, env, fall, brk, mode, dry)

    def if_extra(self, s, rest, env, fall, brk, mode, dry):
        t = ast.unparse(s.test)
        if t == 'random_subset and x.size > random_subset':
            if '\n'.join(ast.unparse(b) for b in s.body) != RANDOM_HIST or [ast.unparse(b) for b in s.orelse] != ['correction = 1.0']:
                fail(s, 'the random_subset block differs from the template')
            env = dict(env)
            if [env.get(v) for v in ('x', 'y', 'w')] != ['harr', 'harr', 'optharr']:
                fail(s, 'types of x / y / w at the random_subset block: %r' % [env.get(v) for v in ('x', 'y', 'w')])
            env['correction'] = 'corr'
            return ("let '(x, y, w, correction) := (if ((oz_truthy random_subset) && ((H_size x) >? oz_get random_subset)) then "
                    "H_random_subset x y w random_subset else (x, y, w, H_corr_one)) in\n%s" % self.block(rest, env, fall, brk, mode, dry))
        m = re.match(r'^DASK_INSTALLED and isinstance\((\w), da\.Array\) and \(?not isinstance\(mask, da\.Array\)\)?$', t)
        if m:
            v = m.group(1)
            if [ast.unparse(b) for b in s.body] != ['%s = %s[da.asarray(mask)]' % (v, v)] or [ast.unparse(b) for b in s.orelse] != ['%s = %s[mask]' % (v, v)]:
                fail(s, 'dask / numpy masking block differs from the template')
            return self.block(list(s.orelse) + rest, env, fall, brk, mode, dry)
        return None

    def translate(self):
        env = dict(self.params)
        # y, ymin, ymax exist only for 2-d histograms in the source; the translation carries placeholders in 1-d
        env.update({'y': 'harr', 'ymin': 'num', 'ymax': 'num'})
        body = self.block(self.fn.body, env, lambda e: 'Ok H_none_res', None, 'fn')
        args = ' '.join('(%s : %s)' % ('range_' if p == 'range' else p, GT[t]) for p, t in self.PARAMS)
        out = '(* ---- Data.compute_histogram (glue/core/data.py) ---- *)\n'
        out += '\n'.join(self.loops)
        out += ('Definition compute_histogram %s : result hres :=\n'
                'let y : harr := H_no_arr in\nlet ymin : num := H_no_num in\nlet ymax : num := H_no_num in\n%s.\n' % (args, body))
        return out


HIST_HEADER = r"""
Definition cnth {T} (d : T) (l : list T) (i : Z) : T := nth (Z.to_nat i) l d.
Definition rnth {T} (d : T) (l : list (T * T)) (i : Z) : T * T := nth (Z.to_nat i) l (d, d).
Definition bnth (l : list bool) (i : Z) : bool := nth (Z.to_nat i) l false.

Section HistSkeleton.
Variables TCid TState harr hbarr num corr hres : Type.
Variable H_no_cid : TCid.                                     (* placeholders for values that do not exist on the path taken *)
Variable H_no_arr : harr.
Variable H_no_num : num.
Variable H_none_res : hres.                                   (* the function returns None *)
Variable H_get_data : TCid -> harr.                           (* self.get_data(cid) *)
Variable H_get_mask : TState -> hbarr.                        (* self.get_mask(subset_state) *)
Variable H_state_is_none : TState -> bool.
Variable H_is_categorical : harr -> bool.
Variable H_codes : harr -> harr.
Variable H_index : harr -> hbarr -> harr.                     (* a[boolean array] *)
Variable H_size H_len : harr -> Z.
Variable H_random_subset : harr -> harr -> option harr -> option Z -> harr * harr * option harr * corr.
Variable H_corr_one : corr.
Variable H_ge H_le : harr -> num -> hbarr.                    (* a >= n, a <= n *)
Variable H_and : hbarr -> hbarr -> hbarr.
Variable H_not : hbarr -> hbarr.
Variable H_isnan : harr -> hbarr.
Variable H_is_datetime : harr -> bool.                        (* a.dtype.kind == 'M' *)
Variable H_dt_arr : harr -> harr.                             (* datetime64_to_mpl *)
Variable H_dt_num : num -> num.
Variable H_num_of_Z : Z -> num.
Variable H_num_lt H_num_eq : num -> num -> bool.
Variable H_num_add H_num_mul : num -> num -> num.
Variable H_abs H_spacing H_log10 : num -> num.
Variable H_log10_arr : harr -> harr.
Variable H_zeros : list Z -> hres.                            (* np.zeros(bins) *)
Variable H_histogram1d : harr -> num * num -> Z -> option harr -> hres.          (* fast_histogram.histogram1d *)
Variable H_histogram2d : harr -> harr -> list (num * num) -> list Z -> option harr -> hres.
Variable H_scale : hres -> corr -> hres.                      (* h * correction *)
Definition oget_arr (o : option harr) : harr := match o with Some x => x | None => H_no_arr end.
Definition oget_cid (o : option TCid) : TCid := match o with Some x => x | None => H_no_cid end.
(* sorted((a, b)) *)
Definition py_sorted2 (a b : num) : num * num := if H_num_lt b a then (b, a) else (a, b).

"""

HEADER = r'''(* GENERATED by tools/gen/gen_stat.py from glue/core/data.py on every run -- do not edit. *)
From Coq Require Import ZArith List Bool.
Import ListNotations.
From GV Require Import Common.PyInt gen.Gen_array.
Open Scope Z_scope.

Definition NotImplemented : Z := 4.

(* a view: None | Ellipsis | a list / tuple of integers and slices *)
Inductive ventry := VInt (i : Z) | VSlice (s : slice).
Inductive pyview := PVNone | PVEllipsis | PVList (l : list ventry) | PVTuple (l : list ventry).
(* the axis argument: None | int | tuple of ints *)
Inductive pyaxis := AxNone | AxInt (i : Z) | AxTuple (l : list Z).

Definition view_is_none (v : pyview) : bool := match v with PVNone => true | _ => false end.
Definition view_is_ellipsis (v : pyview) : bool := match v with PVEllipsis => true | _ => false end.
Definition view_is_list (v : pyview) : bool := match v with PVList _ => true | _ => false end.
Definition view_is_tuple (v : pyview) : bool := match v with PVTuple _ => true | _ => false end.
Definition view_entries (v : pyview) : list ventry := match v with PVList l | PVTuple l => l | _ => [] end.
Definition to_tuple (v : pyview) : pyview := match v with PVList l => PVTuple l | _ => v end.
Definition view_len (v : pyview) : Z := zlen (view_entries v).
Definition vnth (v : pyview) (i : Z) : ventry := nth (Z.to_nat i) (view_entries v) (VInt 0).
Definition ventry_is_slice (e : ventry) : bool := match e with VSlice _ => true | VInt _ => false end.
Definition ventry_step (e : ventry) : option Z := match e with VSlice s => sl_step s | VInt _ => None end.
(* slice.indices(n); total: step 0 (ValueError in Python) is excluded by the guards at both call sites *)
Definition indices_t (s : slice) (n : Z) : Z * Z * Z := match slice_indices s n with Some t => t | None => (0, 0, 1) end.
Definition ventry_indices (e : ventry) (n : Z) : Z * Z * Z := match e with VSlice s => indices_t s n | VInt _ => (0, 0, 1) end.
Definition snth (l : list slice) (i : Z) : slice := nth (Z.to_nat i) l (Slice None None None).
Definition pnth (l : list (Z * Z)) (i : Z) : Z * Z := nth (Z.to_nat i) l (0, 0).
Definition slice_of_pair (p : Z * Z) : slice := Slice (Some (fst p)) (Some (snd p)) None.
Definition view_of_chunk (c : list (Z * Z)) : pyview := PVTuple (map (fun p => VSlice (slice_of_pair p)) c).
Definition view_of_slices (l : list slice) : pyview := PVTuple (map VSlice l).
Definition unopt {A} (o : option (list A)) : list A := match o with Some l => l | None => [] end.
Definition axis_is_none (a : pyaxis) : bool := match a with AxNone => true | _ => false end.
Definition axis_is_int (a : pyaxis) : bool := match a with AxInt _ => true | _ => false end.
Definition axis_is_tuple (a : pyaxis) : bool := match a with AxTuple _ => true | _ => false end.
Definition axis_len (a : pyaxis) : Z := match a with AxTuple l => zlen l | _ => 0 end.
Definition axis_int (a : pyaxis) : Z := match a with AxInt i => i | _ => 0 end.
Definition axis_mem (i : Z) (a : pyaxis) : bool :=
  match a with AxTuple l => existsb (Z.eqb i) l | AxInt j => i =? j | AxNone => false end.
Definition oz_truthy (o : option Z) : bool := match o with Some k => negb (k =? 0) | None => false end.
Definition oz_get (o : option Z) : Z := match o with Some k => k | None => 0 end.
Definition oz_eqb (o : option Z) (k : Z) : bool := match o with Some j => j =? k | None => false end.
(* a / b on ints is a float in Python: kept as the exact fraction; int(x / (a / b)) = floor (x * b / a) for operands >= 0 *)
Definition py_truediv (a b : Z) : Z * Z := (a, b).
Definition py_int_div (x : Z) (r : Z * Z) : Z := x * snd r / fst r.
Definition zslice (l : list Z) (a b : Z) : list Z := firstn (Z.to_nat (b - a)) (skipn (Z.to_nat a) l).

Section Skeleton.
(* pass-through parameters and abstract arrays *)
Variables TStat TCid TState TPct arr marr res : Type.
(* the dataset *)
Variable self_shape : list Z.
Definition self_ndim : Z := zlen self_shape.
Definition self_size : Z := zprod self_shape.
(* opaque operations *)
Variable K_stat_code : TStat -> Z.                           (* the name of the statistic: minimum 0, maximum 1, mean 2, median 3, sum 4, percentile 5 *)
Variable K_get_data : TCid -> pyview -> arr.                 (* self.get_data(cid, view) *)
Variable K_is_slice_state : TState -> bool.                  (* isinstance(subset_state, SliceSubsetState) *)
Variable K_truthy : TState -> bool.                          (* `if subset_state:` *)
Variable K_to_mask : TState -> pyview -> marr.               (* subset_state.to_mask(self, view) *)
Variable K_to_array : TState -> TCid -> arr.                 (* subset_state.to_array(self, cid) *)
Variable K_unbroadcast_mask : marr -> marr.
Variable K_unbroadcast_data : arr -> arr.
Variable K_any : marr -> bool.                               (* np.any(m) *)
Variable K_ndim : marr -> Z.
Variable K_shape : marr -> list Z.
Variable K_any_axes : marr -> list Z -> marr.                (* m.any(axis=axes) *)
Variable K_broadcast_to : marr -> list Z -> marr.
Variable K_where0 : marr -> list Z.                          (* np.where(m)[0] *)
Variable K_min K_max : list Z -> Z.
Variable K_mask_getitem : marr -> list slice -> marr.        (* m[slices] *)
Variable K_is_categorical : arr -> bool.
Variable K_codes : arr -> arr.
Variable K_size : arr -> Z.
Variable K_random_subset : arr -> option marr -> option Z -> arr * option marr.
Variable K_compute_statistic : TStat -> arr -> option marr -> pyaxis -> bool -> bool -> TPct -> res.   (* glue.utils.compute_statistic *)
Variable K_res_ndim : res -> Z.                              (* np.ndim(result) *)
Variable K_nan : res.
Variable K_broadcast_nan : list Z -> res.                    (* np.broadcast_to(np.nan, shape) *)
Variable K_zeros : list Z -> res.
Variable K_times_nan : res -> res.                           (* x * np.nan *)
Variable K_setitem : res -> list slice -> res -> res.        (* x[slices] = v *)

'''


def generate():
    mod = ast.parse(open(SRC).read())
    st = Stat(find_method(mod, 'Data', 'compute_statistic'))
    hi = Hist(find_method(mod, 'Data', 'compute_histogram'))
    text = HEADER + st.translate() + '\nEnd Skeleton.\n' + HIST_HEADER + hi.translate() + '\nEnd HistSkeleton.\n'
    if not os.path.exists(OUT) or open(OUT).read() != text:
        open(OUT, 'w').write(text)


if __name__ == '__main__':
    try:
        generate()
    except Unsupported as e:
        print('TRANSLATION-FAILED: %s' % e)
        sys.exit(3)
    print('ok', OUT)
