#!/usr/bin/env python3
"""
Regenerate coq/gen/Gen_cmdstack.v from /repo/glue/core/command.py: the bookkeeping of
CommandStack.do / undo / redo (two lists of opaque commands + the calls made on the commands),
translated statement by statement.  Fail-closed: any statement outside the forms below aborts.

forms   self._A.append(x)                       A := A ++ [x]
        [r =] x.do(self._session) / x.undo(..)  event (EDo x) / (EUndo x) appended to the trace
        self._A = self._A[-MAX_UNDO:]           A := lastn MAX_UNDO A
        self._A = []                            A := []
        try: c = self._A.pop() [; logging] except IndexError: raise IndexError(..)
                                                match rev A with [] => Err IndexError | c :: r => A := rev r ...
        logging.getLogger(..).debug(..), self.notify(..), docstrings, return [name]   no effect on the model
MAX_UNDO is read from the module-level assignment.
"""
import ast
import os
import sys

REPO = os.environ.get('GLUE_REPO', '/repo')
SRC = os.path.join(REPO, 'glue/core/command.py')
HERE = os.path.dirname(os.path.abspath(__file__))
OUT = os.path.join(os.path.dirname(os.path.dirname(HERE)), 'coq/gen/Gen_cmdstack.v')
FIELDS = {'_command_stack': 'cmds', '_undo_stack': 'undone'}


class Unsupported(Exception):
    pass


def fail(node, why):
    raise Unsupported('line %s: %s: %s' % (getattr(node, 'lineno', '?'), why, ast.unparse(node)[:120]))


def is_self_field(e):
    return isinstance(e, ast.Attribute) and isinstance(e.value, ast.Name) and e.value.id == 'self' and e.attr in FIELDS


def noop(s):
    if isinstance(s, ast.Expr) and isinstance(s.value, ast.Constant) and isinstance(s.value.value, str):
        return True
    if isinstance(s, ast.Expr) and isinstance(s.value, ast.Call):
        txt = ast.unparse(s.value.func)
        if txt.startswith('logging.getLogger') and txt.endswith('.debug'):
            return True
        if txt == 'self.notify':
            return True
    return False


def cmd_call(call, env):
    """x.do(self._session) / x.undo(self._session) -> ('EDo'|'EUndo', var)"""
    if isinstance(call, ast.Call) and isinstance(call.func, ast.Attribute) and call.func.attr in ('do', 'undo') \
            and isinstance(call.func.value, ast.Name) and call.func.value.id in env \
            and len(call.args) == 1 and ast.unparse(call.args[0]) == 'self._session' and not call.keywords:
        return ('EDo' if call.func.attr == 'do' else 'EUndo'), call.func.value.id
    return None


def tr_block(stmts, env):
    if not stmts:
        return 'Ok (cmds, undone, tr)'
    s, rest = stmts[0], stmts[1:]
    if noop(s):
        return tr_block(rest, env)
    if isinstance(s, ast.Return):
        if s.value is not None and not isinstance(s.value, ast.Name):
            fail(s, 'return value')
        if rest:
            fail(rest[0], 'code after return')
        return 'Ok (cmds, undone, tr)'
    if isinstance(s, ast.Expr) and isinstance(s.value, ast.Call):
        c = s.value
        if isinstance(c.func, ast.Attribute) and c.func.attr == 'append' and is_self_field(c.func.value) \
                and len(c.args) == 1 and isinstance(c.args[0], ast.Name) and c.args[0].id in env:
            f = FIELDS[c.func.value.attr]
            return 'let %s := %s ++ [%s] in\n%s' % (f, f, c.args[0].id, tr_block(rest, env))
        ev = cmd_call(c, env)
        if ev:
            return 'let tr := tr ++ [%s %s] in\n%s' % (ev[0], ev[1], tr_block(rest, env))
        fail(s, 'call statement')
    if isinstance(s, ast.Assign) and len(s.targets) == 1:
        t, v = s.targets[0], s.value
        if isinstance(t, ast.Name):
            ev = cmd_call(v, env)
            if ev:
                return 'let tr := tr ++ [%s %s] in\n%s' % (ev[0], ev[1], tr_block(rest, env))
            fail(s, 'assignment to a local')
        if is_self_field(t):
            f = FIELDS[t.attr]
            if isinstance(v, ast.List) and not v.elts:
                return 'let %s : list Z := [] in\n%s' % (f, tr_block(rest, env))
            if isinstance(v, ast.Subscript) and is_self_field(v.value) and v.value.attr == t.attr \
                    and isinstance(v.slice, ast.Slice) and v.slice.upper is None and v.slice.step is None \
                    and ast.unparse(v.slice.lower) == '-MAX_UNDO':
                return 'let %s := lastn (Z.to_nat MAX_UNDO) %s in\n%s' % (f, f, tr_block(rest, env))
            fail(s, 'assignment to a stack')
        fail(s, 'assignment')
    if isinstance(s, ast.Try):
        if len(s.handlers) != 1 or s.orelse or s.finalbody:
            fail(s, 'try form')
        h = s.handlers[0]
        if not (isinstance(h.type, ast.Name) and h.type.id == 'IndexError' and len(h.body) == 1
                and isinstance(h.body[0], ast.Raise) and ast.unparse(h.body[0].exc).startswith('IndexError(')):
            fail(s, 'except form')
        body = [b for b in s.body if not noop(b)]
        if len(body) != 1:
            fail(s, 'try body')
        a = body[0]
        if not (isinstance(a, ast.Assign) and isinstance(a.targets[0], ast.Name) and isinstance(a.value, ast.Call)
                and isinstance(a.value.func, ast.Attribute) and a.value.func.attr == 'pop'
                and is_self_field(a.value.func.value) and not a.value.args):
            fail(s, 'try body form')
        f = FIELDS[a.value.func.value.attr]
        var = a.targets[0].id
        return 'match rev %s with [] => Err IndexError | %s :: r0_ => let %s := rev r0_ in\n%s end' % (
            f, var, f, tr_block(rest, env | {var}))
    fail(s, 'statement')


def generate():
    mod = ast.parse(open(SRC).read())
    max_undo = None
    for n in mod.body:
        if isinstance(n, ast.Assign) and len(n.targets) == 1 and isinstance(n.targets[0], ast.Name) \
                and n.targets[0].id == 'MAX_UNDO':
            if not (isinstance(n.value, ast.Constant) and isinstance(n.value.value, int)):
                fail(n, 'MAX_UNDO is not an integer literal')
            max_undo = n.value.value
    if max_undo is None:
        raise Unsupported('MAX_UNDO not found')
    cls = [n for n in mod.body if isinstance(n, ast.ClassDef) and n.name == 'CommandStack']
    if len(cls) != 1:
        raise Unsupported('class CommandStack not found exactly once')
    meths = {n.name: n for n in cls[0].body if isinstance(n, ast.FunctionDef)}
    out = ['(* GENERATED by tools/gen/gen_cmdstack.py from glue/core/command.py on every run -- do not edit. *)',
           'From Coq Require Import ZArith List Bool.', 'Import ListNotations.',
           'From GV Require Import Common.PyInt.', 'Open Scope Z_scope.', '',
           'Inductive cs_event : Type := EDo (c : Z) | EUndo (c : Z).',
           'Definition lastn {A} (n : nat) (l : list A) : list A := rev (firstn n (rev l)).',
           'Definition MAX_UNDO : Z := %d.' % max_undo, '']
    for name, params in (('do', ['cmd']), ('undo', []), ('redo', [])):
        fn = meths.get(name)
        if fn is None:
            raise Unsupported('CommandStack.%s not found' % name)
        args = [a.arg for a in fn.args.args]
        if args != ['self'] + params:
            fail(fn, 'signature')
        body = tr_block(list(fn.body), set(params))
        ps = ''.join(' (%s : Z)' % p for p in params)
        out.append('Definition cs_%s (cmds undone : list Z)%s : result (list Z * list Z * list cs_event) :=\n'
                   'let tr : list cs_event := [] in\n%s.\n' % (name, ps, body))
    text = '\n'.join(out) + '\n'
    if not os.path.exists(OUT) or open(OUT).read() != text:
        open(OUT, 'w').write(text)


if __name__ == '__main__':
    try:
        generate()
    except Unsupported as e:
        print('TRANSLATION-FAILED: %s' % e)
        sys.exit(3)
    print('ok', OUT)
