#!/usr/bin/env python3
"""Regenerate coq/gen/Gen_array.v from /repo/glue/utils/array.py (translated functions of C20)."""
import os
import sys

HERE = os.path.dirname(os.path.abspath(__file__))
sys.path.insert(0, os.path.dirname(HERE))
import py2gallina as P  # noqa

REPO = os.environ.get('GLUE_REPO', '/repo')
SRC = os.path.join(REPO, 'glue/utils/array.py')

SPECS = [
    # name, argtypes, rettype
    ('find_chunk_shape', {'shape': 'list Z', 'n_max': 'opt Z'}, 'list Z'),
    ('iterate_chunks', {'shape': 'list Z', 'chunk_shape': 'opt list Z', 'n_max': 'opt Z'}, 'list (list (Z * Z))'),
    ('combine_slices', {'slice1': 'slice', 'slice2': 'slice', 'length': 'Z'}, '(Z * Z * Z)'),
]


def generate(out_path):
    src = open(SRC).read()
    known = {}
    text = P.HEADER % 'glue/utils/array.py'
    for name, argt, rett in SPECS:
        tr = P.translate_function(src, name, argt, rett, known)
        text += '(* ---- %s ---- *)\n' % name + tr.translate() + '\n'
        order = [a.arg for a in tr.fn.args.args]
        known[name] = ([argt[a] for a in order], rett, tr.raises)
    tmp = out_path + '.tmp'
    with open(tmp, 'w') as f:
        f.write(text)
    # only replace when the content changed, so make does not rebuild needlessly
    if not os.path.exists(out_path) or open(out_path).read() != text:
        os.replace(tmp, out_path)
    else:
        os.remove(tmp)


if __name__ == '__main__':
    out = sys.argv[1] if len(sys.argv) > 1 else os.path.join(os.path.dirname(os.path.dirname(HERE)), 'coq/gen/Gen_array.v')
    try:
        generate(out)
    except P.Unsupported as e:
        print('TRANSLATION-FAILED: %s' % e)
        sys.exit(3)
    print('ok', out)
