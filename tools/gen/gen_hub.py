#!/usr/bin/env python3
r"""
Regenerate coq/gen/Gen_hub.v from $GLUE_REPO/glue/core/hub.py (+ the class table of glue/core/message.py): the methods

    Hub._find_handlers  Hub.broadcast  Hub.delay_callbacks  Hub.ignore_callbacks
    Hub.subscribe  Hub.unsubscribe  Hub.unsubscribe_all  and the module function _mro_count

translated statement by statement / expression by expression into Gallina (C07).  FAIL-CLOSED: every form that is
accepted is listed here; anything else aborts with the line number and exit status 3.

Also translated: from glue/core/hub_callback_container.py the dict skeleton of HubCallbackContainer, each method a single
statement over the plain dict self.callbacks (anything else aborts):
    __init__: self.callbacks = {}                  __contains__: return <expr>          keys: return <expr>
    pop: return self.callbacks.pop(<key>)          __setitem__: a, b, c = value ; self.callbacks[k] = self._wrap(a, b, c)
  _wrap / __getitem__ / is_bound_method (weak references) are NOT translated: they are pinned by a hash of their normalised
  text (HCC_PINNED) with the trusted reading "what __setitem__ stores, __getitem__ gives back while the objects are alive"
  (hcc_wrap = the triple, hcc_getitem = d_getitem); any edit of them aborts so that the reading is examined again.
The hub's uses of a container value (k in c, c.keys(), c[k], c[k] = v, c.pop(k)) go through hcc_contains / hcc_keys /
hcc_getitem / hcc_setitem / hcc_pop.

Representation (the fixed, hand-written prelude below; it is the trusted reading of the Python data model):
  objects (subscribers, message classes) are numbers with decidable identity; a message is (tag, type(message));
  handler / filter callables are opaque (types H, F; `ops` gives bool(handler), subscriber.notify, filter(message),
  issubclass, getmro); dict / WeakKeyDictionary / HubCallbackContainer / Counter = association list in insertion order
  (d_contains, d_getitem -> option (None = KeyError), d_setitem in place or appended, d_pop -> option, d_get k default,
  Counter[k] of a missing key = 0); int = Z.
  A method is a state transformer  M = ghub -> option (gstatus * ghub * list E)  (None: the fuel of the enclosing
  interpreter ran out; GRaised: an exception of user code (handler / with-body) propagates; GCrash: a KeyError / ValueError
  raised by the hub's own statements; the list is what the user code logged).

Statements accepted in a method body
  docstring ; logging.getLogger(..).info(..)                        no effect
  (Hub.__init__: only `self._F = WeakKeyDictionary() | [] | Counter() | <int>` of the four attributes -> hub_init)
  if <only not/and/or/isinstance/issubclass of parameters>: raise X(..)   argument type guard: no effect (the ids are well typed)
  return                                                            (tail of a block only, not inside a loop)
  continue                                                          (tail of a block of a pure loop)
  x = e ; a, b, c = e (e a tuple) ; t1, t2 = e1, e2                 (right-hand sides first, then the targets left to right;
                                                                     targets: local names and self._F)
  self._F = e ; self._F[k] = e ; self._F[k1][k2] = e                (the inner container must exist, else KeyError = GCrash)
  self._F += e ; self._F -= e ; self._F[k] += e ; self._F[k] -= e   (Counter semantics for a missing key)
  x.append(e) ; self._F.append(e)
  self._F.pop(k) ; self._F[k1].pop(k)                               (KeyError = GCrash when absent)
  if / elif / else                                                  (the statements after the `if` are continued in both branches)
  try: .. finally: ..                                               (the finally block runs whatever the status; its own non-normal status wins)
  yield                     (in a @contextmanager method)           runs the with-body  `body`
  yield e  as the whole body of the last `for` of a generator       the generator's items = map over the (fully evaluated) iterable
  for T in e: ..   in the generator `_find_handlers`                structural fold over the list; the names assigned/appended in
                                                                    the body that exist before the loop are its accumulators
  for T in e: ..   in a state-changing method (tail position only)  one unfolding `hub_<m>_loop<i>`; the rest of the loop goes
                                                                    through the callback `rec_<m>_loop<i>` (the interpreter ties the knot)
  self.broadcast(e)                                                 callback rec_broadcast
  h(e)   with h a handler value                                     callback call_handler
Expressions accepted
  integer / True / False ; local names and parameters ; self._F ; subscriber.notify ; a + b ; a - b
  not e ; e1 and e2 ; e1 or e2 ; truthiness of int / bool / handler / list in `if`, `elif`, `not`
  a == b, !=, <, <=, >, >=  on integers ; k in d ; k not in d
  len(e) ; type(message) ; issubclass(a, b) ; getmro(c) ; list(e) ; d.items() ; d.keys() ; d.get(k, default) ; d[k] ; t[<int>]
  max(l, key=_mro_count) ; sorted(l, key=lambda x: x[<int>] [, reverse=True/False]) ; f(message) with f a filter value
  self._find_handlers(message) ; HubCallbackContainer() ; (a, b, ..) ; [] ; [x for x in e if c]
"""
import ast
import os
import sys

REPO = os.environ.get('GLUE_REPO', '/repo')
SRC = os.path.join(REPO, 'glue/core/hub.py')
HCC_SRC = os.path.join(REPO, 'glue/core/hub_callback_container.py')
HERE = os.path.dirname(os.path.abspath(__file__))
OUT = os.path.join(os.path.dirname(os.path.dirname(HERE)), 'coq/gen/Gen_hub.v')


class Unsupported(Exception):
    pass


def fail(node, why):
    try:
        txt = ast.unparse(node)[:140]
    except Exception:
        txt = repr(node)
    raise Unsupported('line %s: %s: %s' % (getattr(node, 'lineno', '?'), why, txt.replace('\n', ' | ')))


# ----------------------------------------------------------------------------- types
Z, BOOL, LID, CLS, H, F, MSG = ('Z',), ('bool',), ('lid',), ('cls',), ('H',), ('F',), ('gmsg',)


def LIST(t):
    return ('list', t)


def TUP(*ts):
    return ('tuple', tuple(ts))


def DICT(k, v):
    return ('dict', k, v)


CONTAINER = ('dict', CLS, TUP(H, F, Z), 'hcc')     # a HubCallbackContainer: its own (translated) methods
PLAIN_CALLBACKS = DICT(CLS, TUP(H, F, Z))          # HubCallbackContainer.callbacks, a plain dict
SUBSCRIPTIONS = DICT(LID, CONTAINER)
COUNTER = ('counter', CLS, Z)


def ty(t):
    if t is None:
        return '_'
    k = t[0]
    if k in ('Z', 'bool', 'lid', 'cls', 'H', 'F', 'gmsg'):
        return k
    if k == 'list':
        return 'list (%s)' % ty(t[1])
    if k == 'tuple':
        return '(' + ' * '.join(ty(x) for x in t[1]) + ')'
    if k == 'dict':
        return 'dict (%s)' % ty(t[2])
    if k == 'counter':
        return 'dict Z'
    raise Unsupported('unknown type %r' % (t,))


FIELDS = {'_subscriptions': ('subscriptions', SUBSCRIPTIONS), '_paused': ('paused', Z),
          '_queue': ('queue', LIST(MSG)), '_ignore': ('ignore', COUNTER)}

# (python name, mode, parameters with their kinds)
METHODS = [
    ('_find_handlers', 'pure', [('message', MSG)]),
    ('broadcast', 'M', [('message', MSG)]),
    ('delay_callbacks', 'ctx', []),
    ('ignore_callbacks', 'ctx', [('ignore_type', CLS)]),
    ('subscribe', 'M', [('subscriber', LID), ('message_class', CLS), ('handler', H), ('filter', F), ('priority', Z)]),
    ('unsubscribe', 'M', [('subscriber', LID), ('message', CLS)]),
    ('unsubscribe_all', 'M', [('subscriber', LID)]),
]
FIND_RET = LIST(TUP(LID, H))
RENAME = {'filter', 'map', 'list', 'length', 'fst', 'snd', 'app', 'rev', 'In', 'g', 'o', 'r', 'it_', 'body', 'dict', 'cls',
          'lid', 'H', 'F', 'E', 'M', 'Z', 'ops', 'recs', 'ret', 'seq_k', 'type', 'nat', 'bool', 'option', 'Some', 'None', 'fun',
          'match', 'end', 'let', 'in', 'if', 'then', 'else', 'with', 'as', 'return', 'at', 'fix', 'forall', 'exists', 'Type',
          'Prop', 'Set'}
RET = 'Some (GNormal, g, [])'
CRASH_M = 'Some (GCrash, g, [])'
GUARD_EXC = {'InvalidSubscriber', 'InvalidMessage', 'TypeError'}


def dop(t, name):
    """the dict operation for a value of kind t: the container's own method or the plain dict primitive"""
    return ('hcc_' if len(t) == 4 else 'd_') + name


def cq(name):
    if name == '_':
        return '_'
    return name + '_' if name in RENAME or name.endswith('_') else name


class Ctx(object):
    def __init__(self, fname, mode, env):
        self.fname, self.mode, self.env = fname, mode, dict(env)
        self.binds = []
        self.nv = [0]
        self.in_loop = False
        self.loop_k = None
        self.aux = []            # auxiliary definitions (loops), emitted before the function
        self.rec_fields = []     # (field name, coq type) added to the record recs
        self.nloop = [0]
        self.arity = {}          # local list -> arity of the tuples appended to it
        self.nph = [0]
        self.yields = [0]

    def fresh(self):
        self.nv[0] += 1
        return 'v%d_' % self.nv[0]

    def crash(self):
        return 'None' if self.mode == 'pure' else CRASH_M


def is_self_field(e):
    return isinstance(e, ast.Attribute) and isinstance(e.value, ast.Name) and e.value.id == 'self' and e.attr in FIELDS


def wrap(binds, inner, crash):
    for var, opt in reversed(binds):
        inner = 'match %s with None => %s | Some %s =>\n%s end' % (opt, crash, var, inner)
    return inner


# ----------------------------------------------------------------------------- expressions
def truthy(e, c):
    t, k = ex(e, c)
    if k == BOOL:
        return t
    if k == Z:
        return '(negb (%s =? 0))' % t
    if k == H:
        return '(h_truthy o %s)' % t
    if k is not None and k[0] == 'list':
        return '(negb (Z.of_nat (length %s) =? 0))' % t
    fail(e, 'truth value of this kind of expression')


def ex(e, c):
    """-> (gallina text, type)"""
    if isinstance(e, ast.Constant):
        if isinstance(e.value, bool):
            return ('true' if e.value else 'false'), BOOL
        if isinstance(e.value, int):
            return (str(e.value) if e.value >= 0 else '(%d)' % e.value), Z
        fail(e, 'constant')
    if isinstance(e, ast.Name):
        if e.id in c.env:
            return cq(e.id), c.env[e.id]
        fail(e, 'unknown name')
    if isinstance(e, ast.Attribute):
        if c.mode == 'hcc' and isinstance(e.value, ast.Name) and e.value.id == 'self' and e.attr == 'callbacks':
            return 'c', PLAIN_CALLBACKS
        if is_self_field(e) and c.mode != 'hcc':
            f, t = FIELDS[e.attr]
            return '(g_%s g)' % f, t
        if e.attr == 'notify' and isinstance(e.value, ast.Name) and c.env.get(e.value.id) == LID:
            return '(notify_of o %s)' % cq(e.value.id), H
        fail(e, 'attribute')
    if isinstance(e, ast.BinOp):
        a, ta = ex(e.left, c)
        b, tb = ex(e.right, c)
        if ta == Z and tb == Z and isinstance(e.op, (ast.Add, ast.Sub)):
            return '(%s %s %s)' % (a, '+' if isinstance(e.op, ast.Add) else '-', b), Z
        fail(e, 'binary operation')
    if isinstance(e, ast.UnaryOp):
        if isinstance(e.op, ast.Not):
            return '(negb %s)' % truthy(e.operand, c), BOOL
        if isinstance(e.op, ast.USub):
            a, ta = ex(e.operand, c)
            if ta == Z:
                return '(- %s)' % a, Z
        fail(e, 'unary operation')
    if isinstance(e, ast.BoolOp):
        parts = []
        for i, v in enumerate(e.values):
            n = len(c.binds)
            parts.append(truthy(v, c))
            if i > 0 and len(c.binds) != n:
                fail(e, 'a sub-expression that can raise in a short-circuited operand')
        op = ' && ' if isinstance(e.op, ast.And) else ' || '
        return '(' + op.join(parts) + ')', BOOL
    if isinstance(e, ast.Compare):
        if len(e.ops) != 1:
            fail(e, 'chained comparison')
        op = e.ops[0]
        a, ta = ex(e.left, c)
        b, tb = ex(e.comparators[0], c)
        if isinstance(op, (ast.In, ast.NotIn)):
            if tb is not None and tb[0] in ('dict', 'counter') and ta == tb[1]:
                t = '(%s %s %s)' % (dop(tb, 'contains'), a, b)
                return (t if isinstance(op, ast.In) else '(negb %s)' % t), BOOL
            fail(e, 'membership test')
        if ta == Z and tb == Z:
            ops = {ast.Eq: '(%s =? %s)', ast.NotEq: '(negb (%s =? %s))', ast.Lt: '(%s <? %s)', ast.LtE: '(%s <=? %s)',
                   ast.Gt: '(%s >? %s)', ast.GtE: '(%s >=? %s)'}
            if type(op) in ops:
                return ops[type(op)] % (a, b), BOOL
        fail(e, 'comparison')
    if isinstance(e, ast.Tuple):
        parts = [ex(x, c) for x in e.elts]
        return '(' + ', '.join(p[0] for p in parts) + ')', TUP(*[p[1] for p in parts])
    if isinstance(e, ast.List):
        if e.elts:
            fail(e, 'list display')
        return '[]', LIST(None)
    if isinstance(e, ast.Subscript):
        v, tv = ex(e.value, c)
        if tv is not None and tv[0] == 'tuple' and isinstance(e.slice, ast.Constant) and isinstance(e.slice.value, int):
            p = proj(v, e.slice.value, len(tv[1]))
            if p is None:
                fail(e, 'tuple index out of range')
            return p, tv[1][e.slice.value]
        if tv is not None and tv[0] == 'dict':
            k, tk = ex(e.slice, c)
            if tk != tv[1]:
                fail(e, 'key kind')
            var = c.fresh()
            c.binds.append((var, '%s %s %s' % (dop(tv, 'getitem'), k, v)))
            return var, tv[2]
        if tv is not None and tv[0] == 'counter':
            k, tk = ex(e.slice, c)
            if tk != tv[1]:
                fail(e, 'key kind')
            return '(ctr_getitem %s %s)' % (k, v), Z
        fail(e, 'subscript')
    if isinstance(e, ast.ListComp):
        if len(e.generators) != 1 or e.generators[0].is_async or not isinstance(e.generators[0].target, ast.Name):
            fail(e, 'comprehension form')
        gen = e.generators[0]
        it, tit = ex(gen.iter, c)
        if tit is None or tit[0] != 'list':
            fail(e, 'comprehension over a non-list')
        if not (isinstance(e.elt, ast.Name) and e.elt.id == gen.target.id):
            fail(e, 'comprehension element must be the loop variable')
        c2 = Ctx(c.fname, c.mode, c.env)
        c2.env[gen.target.id] = tit[1]
        conds = [truthy(x, c2) for x in gen.ifs]
        if c2.binds:
            fail(e, 'a sub-expression that can raise inside a comprehension')
        cond = ' && '.join(conds) if conds else 'true'
        return '(filter (fun %s => %s) %s)' % (cq(gen.target.id), cond, it), tit
    if isinstance(e, ast.Call):
        return call(e, c)
    fail(e, 'expression')


def proj(v, i, n):
    if not 0 <= i < n:
        return None
    if n == 1:
        return v
    t = v
    for _ in range(n - 1 - i):
        t = '(fst %s)' % t
    return t if i == 0 else '(snd %s)' % t


def call(e, c):
    fn = e.func
    kw = {k.arg: k.value for k in e.keywords}
    if None in kw:
        fail(e, '** arguments')
    if isinstance(fn, ast.Name):
        n = fn.id
        if n == 'len' and len(e.args) == 1 and not kw:
            a, ta = ex(e.args[0], c)
            if ta is not None and ta[0] in ('list', 'dict', 'counter'):
                return '(Z.of_nat (length %s))' % a, Z
            fail(e, 'len of this kind')
        if n == 'type' and len(e.args) == 1 and not kw:
            a, ta = ex(e.args[0], c)
            if ta == MSG:
                return '(py_type %s)' % a, CLS
            fail(e, 'type() of a non-message')
        if n == 'issubclass' and len(e.args) == 2 and not kw:
            a, ta = ex(e.args[0], c)
            b, tb = ex(e.args[1], c)
            if ta == CLS and tb == CLS:
                return '(issubclass o %s %s)' % (a, b), BOOL
            fail(e, 'issubclass arguments')
        if n == 'getmro' and len(e.args) == 1 and not kw:
            a, ta = ex(e.args[0], c)
            if ta == CLS:
                return '(getmro o %s)' % a, LIST(CLS)
            fail(e, 'getmro argument')
        if n == 'list' and len(e.args) == 1 and not kw:
            a, ta = ex(e.args[0], c)
            if ta is not None and ta[0] == 'list':
                return a, ta
            fail(e, 'list() of a non-list')
        if n == 'max' and len(e.args) == 1 and set(kw) == {'key'}:
            a, ta = ex(e.args[0], c)
            if not (ta is not None and ta[0] == 'list' and ta[1] == CLS and isinstance(kw['key'], ast.Name) and kw['key'].id == '_mro_count'):
                fail(e, 'max form (max(<list of classes>, key=_mro_count))')
            var = c.fresh()
            c.binds.append((var, 'py_max (hub_mro_count o) %s' % a))
            return var, ta[1]
        if n == 'sorted' and len(e.args) == 1 and set(kw) <= {'key', 'reverse'} and 'key' in kw:
            a, ta = ex(e.args[0], c)
            if not (isinstance(e.args[0], ast.Name) and ta is not None and ta[0] == 'list'):
                fail(e, 'sorted() of something else than a local list')
            arity = c.arity.get(e.args[0].id)
            lam = kw['key']
            if not (isinstance(lam, ast.Lambda) and len(lam.args.args) == 1 and not lam.args.defaults and arity
                    and isinstance(lam.body, ast.Subscript) and isinstance(lam.body.value, ast.Name)
                    and lam.body.value.id == lam.args.args[0].arg and isinstance(lam.body.slice, ast.Constant)
                    and isinstance(lam.body.slice.value, int)):
                fail(e, 'sort key (lambda x: x[<int>])')
            idx = lam.body.slice.value
            et = ta[1]
            if et is None or et[0] != 'tuple' or not 0 <= idx < len(et[1]) or et[1][idx] != Z:
                fail(e, 'sort key does not select an integer component')
            rev = 'false'
            if 'reverse' in kw:
                if not (isinstance(kw['reverse'], ast.Constant) and isinstance(kw['reverse'].value, bool)):
                    fail(e, 'reverse=')
                rev = 'true' if kw['reverse'].value else 'false'
            x = cq(lam.args.args[0].arg)
            return '(py_sorted (fun %s => %s) %s %s)' % (x, proj(x, idx, len(et[1])), rev, a), ta
        if n == 'HubCallbackContainer' and not e.args and not kw:
            return 'hcc_new', CONTAINER
        if n in c.env and c.env[n] == F and len(e.args) == 1 and not kw:
            a, ta = ex(e.args[0], c)
            if ta == MSG:
                return '(call_filter o %s %s)' % (cq(n), a), BOOL
        fail(e, 'call')
    if isinstance(fn, ast.Attribute):
        if isinstance(fn.value, ast.Name) and fn.value.id == 'self' and fn.attr == '_find_handlers' and len(e.args) == 1 and not kw:
            if c.mode == 'pure':
                fail(e, 'recursive use of _find_handlers')
            a, ta = ex(e.args[0], c)
            if ta != MSG:
                fail(e, '_find_handlers argument')
            var = c.fresh()
            c.binds.append((var, 'hub_find_handlers o g %s' % a))
            return var, FIND_RET
        if fn.attr in ('items', 'keys') and not e.args and not kw:
            a, ta = ex(fn.value, c)
            if ta is not None and ta[0] == 'dict':
                if fn.attr == 'items' and len(ta) == 3:
                    return '(d_items %s)' % a, LIST(TUP(ta[1], ta[2]))
                return '(%s %s)' % (dop(ta, 'keys'), a), LIST(ta[1])
            fail(e, '.%s() of a non-dict' % fn.attr)
        if fn.attr == 'get' and len(e.args) == 2 and not kw:
            a, ta = ex(fn.value, c)
            k, tk = ex(e.args[0], c)
            d, td = ex(e.args[1], c)
            if ta is not None and ta[0] in ('dict', 'counter') and tk == ta[1] and td == ta[2]:
                return '(d_get %s %s %s)' % (k, d, a), ta[2]
            fail(e, '.get form')
    fail(e, 'call')


# ----------------------------------------------------------------------------- statements
def is_noop(s):
    if isinstance(s, ast.Expr) and isinstance(s.value, ast.Constant) and isinstance(s.value.value, str):
        return True
    if isinstance(s, ast.Expr) and isinstance(s.value, ast.Call):
        t = ast.unparse(s.value.func)
        if t == 'logging.getLogger(__name__).info':
            return True
    return False


def is_type_guard(s, c):
    if not (isinstance(s, ast.If) and not s.orelse and len(s.body) == 1 and isinstance(s.body[0], ast.Raise)):
        return False
    r = s.body[0]
    if not (isinstance(r.exc, ast.Call) and isinstance(r.exc.func, ast.Name) and r.exc.func.id in GUARD_EXC and r.cause is None):
        return False

    def ok(t):
        if isinstance(t, ast.UnaryOp) and isinstance(t.op, ast.Not):
            return ok(t.operand)
        if isinstance(t, ast.BoolOp):
            return all(ok(v) for v in t.values)
        if isinstance(t, ast.Call) and isinstance(t.func, ast.Name) and t.func.id in ('isinstance', 'issubclass') \
                and len(t.args) == 2 and not t.keywords and isinstance(t.args[0], ast.Name) and t.args[0].id in c.env \
                and isinstance(t.args[1], ast.Name) and t.args[1].id in ('HubListener', 'Message', 'type'):
            return True
        return False
    return ok(s.test)


def assigned_names(stmts):
    out = []
    for s in stmts:
        for n in ast.walk(s):
            if isinstance(n, ast.Name) and isinstance(n.ctx, ast.Store):
                out.append(n.id)
            if isinstance(n, ast.Call) and isinstance(n.func, ast.Attribute) and n.func.attr == 'append' and isinstance(n.func.value, ast.Name):
                out.append(n.func.value.id)
    return out


def free_names(stmts, c, exclude):
    out = []
    for s in stmts:
        for n in ast.walk(s):
            if isinstance(n, ast.Name) and n.id in c.env and n.id not in exclude and n.id not in out:
                out.append(n.id)
    return out


def target_pattern(t, c, elem):
    """loop / unpacking target -> (pattern text, {name: type})"""
    if isinstance(t, ast.Name):
        return cq(t.id), {t.id: elem}
    if isinstance(t, ast.Tuple) and all(isinstance(x, ast.Name) for x in t.elts):
        if elem is None or elem[0] != 'tuple' or len(elem[1]) != len(t.elts):
            fail(t, 'unpacking does not match the element shape')
        names = {}
        for x, k in zip(t.elts, elem[1]):
            if x.id != '_':
                names[x.id] = k
        return '(' + ', '.join(cq(x.id) for x in t.elts) + ')', names
    fail(t, 'target form')


def call_stmt(text, rest, c, k):
    """an M-valued call as a statement, followed by `rest`"""
    if not rest and k == RET:
        return text
    return 'seq_k (%s) (fun g =>\n%s)' % (text, blk(rest, c, k))


def blk(stmts, c, k):
    """the statements `stmts` followed by the continuation text `k`; free variable g = the current hub state"""
    if not stmts:
        if k is None:
            raise Unsupported('%s: the end of the generator is reached without the final `for .. : yield ..` loop' % c.fname)
        return k
    s, rest = stmts[0], stmts[1:]
    if is_noop(s) or is_type_guard(s, c):
        return blk(rest, c, k)
    if c.binds:
        raise Unsupported('internal: pending bindings')
    out = stmt(s, rest, c, k)
    return out


def with_binds(c, inner_fn):
    """run inner_fn() (which may translate expressions that can raise) and wrap its result in the hoisted matches"""
    saved = c.binds
    c.binds = []
    inner = inner_fn()
    binds, c.binds = c.binds, saved
    return binds, inner


def stmt(s, rest, c, k):
    M = c.mode in ('M', 'ctx')
    if isinstance(s, ast.Return):
        if s.value is not None or not M:
            fail(s, 'return with a value / in a generator')
        if c.in_loop:
            fail(s, 'return inside a loop')
        if rest:
            fail(rest[0], 'code after return')
        return RET
    if isinstance(s, ast.Continue):
        if c.loop_k is None or rest:
            fail(s, 'continue outside a pure loop / code after continue')
        return c.loop_k
    if isinstance(s, ast.Expr) and isinstance(s.value, ast.Yield):
        if c.mode != 'ctx' or s.value.value is not None or c.in_loop:
            fail(s, 'yield')
        c.yields[0] += 1
        return call_stmt('body g', rest, c, k)
    if isinstance(s, ast.Expr) and isinstance(s.value, ast.Call):
        e = s.value
        fn = e.func
        if isinstance(fn, ast.Attribute) and fn.attr == 'append' and len(e.args) == 1 and not e.keywords:
            c.binds = []
            a, ta = ex(e.args[0], c)
            binds, c.binds = c.binds, []
            if is_self_field(fn.value):
                f, tf = FIELDS[fn.value.attr]
                if not M or tf[0] != 'list' or tf[1] != ta:
                    fail(s, 'append to this attribute')
                return wrap(binds, 'let g := gset_%s g (g_%s g ++ [%s]) in\n%s' % (f, f, a, blk(rest, c, k)), c.crash())
            if isinstance(fn.value, ast.Name) and fn.value.id in c.env and c.env[fn.value.id] is not None and c.env[fn.value.id][0] == 'list':
                n = fn.value.id
                old = c.env[n][1]
                if old is not None and old != ta:
                    fail(s, 'append changes the element kind')
                c.env[n] = LIST(ta)
                if ta is not None and ta[0] == 'tuple':
                    c.arity[n] = len(ta[1])
                return wrap(binds, 'let %s := %s ++ [%s] in\n%s' % (cq(n), cq(n), a, blk(rest, c, k)), c.crash())
            fail(s, 'append')
        if isinstance(fn, ast.Attribute) and fn.attr == 'pop' and len(e.args) == 1 and not e.keywords and M:
            c.binds = []
            key, tk = ex(e.args[0], c)
            tgt = fn.value
            if is_self_field(tgt):
                f, tf = FIELDS[tgt.attr]
                if tf[0] != 'dict' or tf[1] != tk:
                    fail(s, 'pop on this attribute')
                binds, c.binds = c.binds, []
                inner = 'match d_pop %s (g_%s g) with None => %s | Some d_ =>\nlet g := gset_%s g d_ in\n%s end' % (
                    key, f, CRASH_M, f, blk(rest, c, k))
                return wrap(binds, inner, c.crash())
            if isinstance(tgt, ast.Subscript) and is_self_field(tgt.value):
                f, tf = FIELDS[tgt.value.attr]
                k1, tk1 = ex(tgt.slice, c)
                if tf[0] != 'dict' or tf[1] != tk1 or tf[2][0] != 'dict' or tf[2][1] != tk:
                    fail(s, 'pop on this container')
                binds, c.binds = c.binds, []
                inner = ('match d_getitem %s (g_%s g) with None => %s | Some c_ =>\n'
                         'match %s %s c_ with None => %s | Some c_ =>\n'
                         'let g := gset_%s g (d_setitem %s c_ (g_%s g)) in\n%s end end') % (
                    k1, f, CRASH_M, dop(tf[2], 'pop'), key, CRASH_M, f, k1, f, blk(rest, c, k))
                return wrap(binds, inner, c.crash())
            fail(s, 'pop')
        if M and isinstance(fn, ast.Attribute) and isinstance(fn.value, ast.Name) and fn.value.id == 'self' and fn.attr == 'broadcast' \
                and len(e.args) == 1 and not e.keywords:
            c.binds = []
            a, ta = ex(e.args[0], c)
            binds, c.binds = c.binds, []
            if ta != MSG:
                fail(s, 'broadcast argument')
            return wrap(binds, call_stmt('rec_broadcast r %s g' % a, rest, c, k), c.crash())
        if M and isinstance(fn, ast.Name) and c.env.get(fn.id) == H and len(e.args) == 1 and not e.keywords:
            c.binds = []
            a, ta = ex(e.args[0], c)
            binds, c.binds = c.binds, []
            if ta != MSG:
                fail(s, 'handler argument')
            return wrap(binds, call_stmt('call_handler r %s %s g' % (cq(fn.id), a), rest, c, k), c.crash())
        fail(s, 'call statement')
    if isinstance(s, ast.Assign):
        if len(s.targets) != 1:
            fail(s, 'chained assignment')
        return assign(s, s.targets[0], s.value, rest, c, k)
    if isinstance(s, ast.AugAssign):
        if not M or not isinstance(s.op, (ast.Add, ast.Sub)):
            fail(s, 'augmented assignment')
        op = '+' if isinstance(s.op, ast.Add) else '-'
        c.binds = []
        v, tv = ex(s.value, c)
        if tv != Z:
            fail(s, 'augmented assignment of a non-integer')
        t = s.target
        if is_self_field(t) and FIELDS[t.attr][1] == Z:
            f = FIELDS[t.attr][0]
            binds, c.binds = c.binds, []
            return wrap(binds, 'let g := gset_%s g (g_%s g %s %s) in\n%s' % (f, f, op, v, blk(rest, c, k)), c.crash())
        if isinstance(t, ast.Subscript) and is_self_field(t.value) and FIELDS[t.value.attr][1][0] == 'counter':
            f, tf = FIELDS[t.value.attr]
            key, tk = ex(t.slice, c)
            if tk != tf[1]:
                fail(s, 'key kind')
            binds, c.binds = c.binds, []
            return wrap(binds, 'let g := gset_%s g (d_setitem %s (ctr_getitem %s (g_%s g) %s %s) (g_%s g)) in\n%s' % (
                f, key, key, f, op, v, f, blk(rest, c, k)), c.crash())
        fail(s, 'augmented assignment target')
    if isinstance(s, ast.If):
        c.binds = []
        test = truthy(s.test, c)
        binds, c.binds = c.binds, []
        c.nph[0] += 1
        ph = '<<K%d>>' % c.nph[0] if [x for x in rest if not is_noop(x)] else k
        env0 = dict(c.env)
        a = blk(list(s.body), c, ph)
        env_a = c.env
        c.env = dict(env0)
        b = blk(list(s.orelse), c, ph)
        env_b = c.env
        merged = dict(env0)
        for n_, t_ in list(env_a.items()) + list(env_b.items()):
            if n_ in env0 and env0[n_] is not None and env0[n_] != t_ and not (env0[n_][0] == 'list' and env0[n_][1] is None):
                fail(s, 'a branch changes the kind of %s' % n_)
            if merged.get(n_) is None or (merged[n_][0] == 'list' and merged[n_][1] is None):
                merged[n_] = t_
        c.env = merged
        if ph is not k:
            kk = '(' + blk(rest, c, k) + ')'
            a, b = a.replace(ph, kk), b.replace(ph, kk)
        return wrap(binds, 'if %s then\n%s\nelse\n%s' % (test, a, b), c.crash())
    if isinstance(s, ast.Try):
        if s.handlers or s.orelse or not s.finalbody or not M:
            fail(s, 'try form (only try/finally)')
        if c.in_loop:
            fail(s, 'try inside a loop')
        a = blk(list(s.body), c, RET)
        b = blk(list(s.finalbody), c, RET)
        return call_stmt('try_finally (fun g =>\n%s) (fun g =>\n%s) g' % (a, b), rest, c, k)
    if isinstance(s, ast.For):
        if s.orelse:
            fail(s, 'for/else')
        return for_loop(s, rest, c, k)
    fail(s, 'statement')


def assign(s, t, v, rest, c, k):
    M = c.mode in ('M', 'ctx')
    c.binds = []
    # t1, t2 = e1, e2 : right-hand sides first, then the targets from left to right
    if isinstance(t, ast.Tuple) and isinstance(v, ast.Tuple) and len(t.elts) == len(v.elts) \
            and any(not isinstance(x, ast.Name) for x in t.elts):
        vals = [ex(x, c) for x in v.elts]
        binds, c.binds = c.binds, []
        lines = []
        tmps = []
        for i, (txt, kind) in enumerate(vals):
            tmps.append('t%d_' % (i + 1))
            lines.append('let %s := %s in' % (tmps[-1], txt))
        for x, tmp, (txt, kind) in zip(t.elts, tmps, vals):
            if isinstance(x, ast.Name):
                c.env[x.id] = kind
                lines.append('let %s := %s in' % (cq(x.id), tmp))
            elif is_self_field(x) and M:
                f, tf = FIELDS[x.attr]
                if not (tf == kind or (tf[0] == 'list' and kind == LIST(None))):
                    fail(s, 'kind of the value stored in self.%s' % x.attr)
                lines.append('let g := gset_%s g %s in' % (f, tmp))
            else:
                fail(s, 'assignment target')
        return wrap(binds, '\n'.join(lines) + '\n' + blk(rest, c, k), c.crash())
    val, tv = ex(v, c)
    binds, c.binds = c.binds, []
    if isinstance(t, ast.Name):
        c.env[t.id] = tv
        return wrap(binds, 'let %s := %s in\n%s' % (cq(t.id), val, blk(rest, c, k)), c.crash())
    if isinstance(t, ast.Tuple) and all(isinstance(x, ast.Name) for x in t.elts):
        pat, names = target_pattern(t, c, tv)
        c.env.update(names)
        return wrap(binds, "let '%s := %s in\n%s" % (pat, val, blk(rest, c, k)), c.crash())
    if not M:
        fail(s, 'assignment target in a generator')
    if is_self_field(t):
        f, tf = FIELDS[t.attr]
        if not (tf == tv or (tf[0] == 'list' and tv == LIST(None))):
            fail(s, 'kind of the value stored in self.%s' % t.attr)
        return wrap(binds, 'let g := gset_%s g %s in\n%s' % (f, val, blk(rest, c, k)), c.crash())
    if isinstance(t, ast.Subscript) and is_self_field(t.value):
        f, tf = FIELDS[t.value.attr]
        key, tk = ex(t.slice, c)
        b2, c.binds = c.binds, []
        if tf[0] not in ('dict', 'counter') or tk != tf[1] or tv != tf[2]:
            fail(s, 'kind of key / value stored in self.%s[..]' % t.value.attr)
        return wrap(binds + b2, 'let g := gset_%s g (d_setitem %s %s (g_%s g)) in\n%s' % (f, key, val, f, blk(rest, c, k)), c.crash())
    if isinstance(t, ast.Subscript) and isinstance(t.value, ast.Subscript) and is_self_field(t.value.value):
        f, tf = FIELDS[t.value.value.attr]
        k1, tk1 = ex(t.value.slice, c)
        k2, tk2 = ex(t.slice, c)
        b2, c.binds = c.binds, []
        if tf[0] != 'dict' or tk1 != tf[1] or tf[2][0] != 'dict' or tk2 != tf[2][1] or tv != tf[2][2]:
            fail(s, 'kind of keys / value stored in self.%s[..][..]' % t.value.value.attr)
        inner = ('match d_getitem %s (g_%s g) with None => %s | Some c_ =>\n'
                 'let g := gset_%s g (d_setitem %s (%s %s %s c_) (g_%s g)) in\n%s end') % (
            k1, f, CRASH_M, f, k1, dop(tf[2], 'setitem'), k2, val, f, blk(rest, c, k))
        return wrap(binds + b2, inner, c.crash())
    fail(s, 'assignment target')


def for_loop(s, rest, c, k):
    c.binds = []
    it, tit = ex(s.iter, c)
    binds, c.binds = c.binds, []
    if tit is None or tit[0] != 'list' or tit[1] is None:
        fail(s, 'loop over something that is not a list of known shape')
    pat, names = target_pattern(s.target, c, tit[1])
    c.nloop[0] += 1
    name = 'hub_%s_loop%d' % (c.fname.lstrip('_'), c.nloop[0])
    body = list(s.body)
    if c.mode == 'pure':
        # the final loop of the generator: for T in e: yield v
        if len(body) == 1 and isinstance(body[0], ast.Expr) and isinstance(body[0].value, ast.Yield) and body[0].value.value is not None:
            if rest or c.in_loop:
                fail(s, 'the yielding loop must be the last statement of the generator')
            c2 = Ctx(c.fname, c.mode, c.env)
            c2.env.update(names)
            v, tv = ex(body[0].value.value, c2)
            if c2.binds:
                fail(s, 'yielded value can raise')
            if tv != FIND_RET[1]:
                fail(s, 'yielded value is not (subscriber, handler)')
            c.yields[0] += 1
            return wrap(binds, "Some (map (fun '%s => %s) %s)" % (pat if pat.startswith('(') else '(%s)' % pat, v, it), c.crash())
        if c.in_loop:
            fail(s, 'nested loop')
        accs = [n for n in dict.fromkeys(assigned_names(body)) if n in c.env and n not in names]
        if not accs:
            fail(s, 'loop without accumulator')
        fvs = [n for n in free_names(body, c, set(accs) | set(names))]
        c2 = Ctx(c.fname, c.mode, c.env)
        c2.env.update(names)
        c2.in_loop = True
        c2.arity = c.arity
        c2.nloop, c2.nv, c2.nph, c2.yields = c.nloop, c.nv, c.nph, c.yields
        accpat = cq(accs[0]) if len(accs) == 1 else '(' + ', '.join(cq(a) for a in accs) + ')'
        reccall = '%s o g %s it_ %s' % (name, ' '.join(cq(n) for n in fvs), ' '.join(cq(a) for a in accs))
        reccall = ' '.join(reccall.split())
        c2.loop_k = reccall
        btxt = blk(body, c2, reccall)
        for a in accs:
            c.env[a] = c2.env[a]
        params = ''.join(' (%s : %s)' % (cq(n), ty(c.env[n])) for n in fvs)
        aparams = ''.join(' (%s : %s)' % (cq(a), ty(c2.env[a])) for a in accs)
        acct = ty(c2.env[accs[0]]) if len(accs) == 1 else '(' + ' * '.join(ty(c2.env[a]) for a in accs) + ')'
        c.aux.append('Fixpoint %s (o : ops) (g : ghub)%s (it_ : %s)%s {struct it_} : option (%s) :=\n'
                     'match it_ with\n| [] => Some %s\n| %s :: it_ =>\n%s\nend.\n' % (
                         name, params, ty(tit), aparams, acct, accpat, pat, btxt))
        call_txt = ' '.join(('%s o g %s' % (name, ' '.join(cq(n) for n in fvs))).split()) + ' %s %s' % (it, ' '.join(cq(a) for a in accs))
        return wrap(binds, 'match %s with None => None | Some %s =>\n%s end' % (call_txt, accpat, blk(rest, c, k)), c.crash())
    # state-changing method: one unfolding, the rest of the loop through the callback
    if rest or k != RET or c.in_loop:
        fail(s, 'a loop of a state-changing method must be the last statement (tail position), not nested')
    fvs = [n for n in free_names(body, c, set(names))]
    c2 = Ctx(c.fname, c.mode, c.env)
    c2.env.update(names)
    c2.in_loop = True
    c2.nloop, c2.nv, c2.nph, c2.yields = c.nloop, c.nv, c.nph, c.yields
    field = 'rec_' + name[4:]
    reccall = ' '.join(('%s r %s' % (field, ' '.join(cq(n) for n in fvs))).split()) + ' it_ g'
    btxt = blk(body, c2, reccall)
    params = ''.join(' (%s : %s)' % (cq(n), ty(c.env[n])) for n in fvs)
    c.rec_fields.append((field, ' -> '.join([ty(c.env[n]) for n in fvs] + [ty(tit), 'M'])))
    c.aux.append('Definition %s (o : ops) (r : recs)%s (it_ : %s) : M := fun g =>\n'
                 'match it_ with\n| [] => %s\n| %s :: it_ =>\n%s\nend.\n' % (name, params, ty(tit), RET, pat, btxt))
    call_txt = ' '.join(('%s r %s' % (field, ' '.join(cq(n) for n in fvs))).split()) + ' %s g' % it
    return wrap(binds, call_txt, c.crash())


# ----------------------------------------------------------------------------- the fixed part of the output
PRELUDE = r"""(* GENERATED by tools/gen/gen_hub.py from glue/core/hub.py (and the class table of glue/core/message.py) on every run -- do not edit. *)
From Coq Require Import ZArith List Bool Arith.
Import ListNotations.
Open Scope Z_scope.

(* ---- fixed prelude: the reading of the Python data model ---- *)
Definition cls := nat.                 (* a message class: an object with decidable identity *)
Definition lid := nat.                 (* a subscriber *)
Definition gmsg := (Z * cls)%type.     (* a message object: (tag, type(message)) *)
Definition py_type (m : gmsg) : cls := snd m.

(* dict / WeakKeyDictionary / HubCallbackContainer.callbacks / Counter: association list in insertion order *)
Definition dict (V : Type) := list (nat * V).
Definition d_contains {V} (k : nat) (d : dict V) : bool := existsb (fun e => Nat.eqb (fst e) k) d.
Fixpoint d_getitem {V} (k : nat) (d : dict V) : option V :=       (* None = KeyError *)
  match d with [] => None | e :: t => if Nat.eqb (fst e) k then Some (snd e) else d_getitem k t end.
Fixpoint d_setitem {V} (k : nat) (v : V) (d : dict V) : dict V :=  (* an existing key keeps its place *)
  match d with [] => [(k, v)] | e :: t => if Nat.eqb (fst e) k then (fst e, v) :: t else e :: d_setitem k v t end.
Definition d_pop {V} (k : nat) (d : dict V) : option (dict V) :=   (* None = KeyError *)
  if d_contains k d then Some (filter (fun e => negb (Nat.eqb (fst e) k)) d) else None.
Definition d_get {V} (k : nat) (dflt : V) (d : dict V) : V := match d_getitem k d with Some v => v | None => dflt end.
Definition d_keys {V} (d : dict V) : list nat := map fst d.
Definition d_items {V} (d : dict V) : list (nat * V) := d.
Definition ctr_getitem (k : nat) (c : dict Z) : Z := d_get k 0 c.  (* Counter.__missing__ *)

(* max(l, key=..): the first of the maximal elements; None = ValueError (empty) *)
Fixpoint py_max_from {A} (key : A -> Z) (cur : A) (l : list A) : A :=
  match l with [] => cur | x :: t => if key cur <? key x then py_max_from key x t else py_max_from key cur t end.
Definition py_max {A} (key : A -> Z) (l : list A) : option A :=
  match l with [] => None | x :: t => Some (py_max_from key x t) end.
(* sorted(l, key=.., reverse=..): stable in both directions *)
Fixpoint py_insert {A} (key : A -> Z) (reverse : bool) (x : A) (l : list A) : list A :=
  match l with
  | [] => [x]
  | y :: t => if (if reverse then key x <? key y else key y <? key x) then y :: py_insert key reverse x t else x :: l
  end.
Definition py_sorted {A} (key : A -> Z) (reverse : bool) (l : list A) : list A := fold_right (py_insert key reverse) [] l.

Inductive gstatus := GNormal | GRaised | GCrash.

Section Hub.
Context {H F E : Type}.                (* handler objects, filter objects, what user code logs *)

Record ops := {
  issubclass : cls -> cls -> bool;
  getmro : cls -> list cls;
  h_truthy : H -> bool;                (* bool(handler) *)
  notify_of : lid -> H;                (* subscriber.notify *)
  call_filter : F -> gmsg -> bool      (* filter(message) *)
}.

Definition container := dict (H * F * Z).   (* HubCallbackContainer.callbacks; the weakly referenced callables are read as the callables *)
(* trusted reading of _wrap / __getitem__ (pinned by the generator): what is stored is what is given back *)
Definition hcc_wrap (handler : H) (filter_ : F) (priority : Z) : H * F * Z := (handler, filter_, priority).
Definition hcc_getitem (message_class : cls) (c : container) : option (H * F * Z) := d_getitem message_class c.
<<HCC>>
Record ghub := { g_subscriptions : dict container; g_paused : Z; g_queue : list gmsg; g_ignore : dict Z }.
Definition gset_subscriptions (g : ghub) x := {| g_subscriptions := x; g_paused := g_paused g; g_queue := g_queue g; g_ignore := g_ignore g |}.
Definition gset_paused (g : ghub) x := {| g_subscriptions := g_subscriptions g; g_paused := x; g_queue := g_queue g; g_ignore := g_ignore g |}.
Definition gset_queue (g : ghub) x := {| g_subscriptions := g_subscriptions g; g_paused := g_paused g; g_queue := x; g_ignore := g_ignore g |}.
Definition gset_ignore (g : ghub) x := {| g_subscriptions := g_subscriptions g; g_paused := g_paused g; g_queue := g_queue g; g_ignore := x |}.
Definition gres := (gstatus * ghub * list E)%type.
Definition M := ghub -> option gres.

(* statement; rest : the rest runs only after a normal end *)
Definition seq_k (a : option gres) (k : M) : option gres :=
  match a with
  | None => None
  | Some (GNormal, g1, l1) => match k g1 with None => None | Some (st, g2, l2) => Some (st, g2, l1 ++ l2) end
  | Some x => Some x
  end.
(* try: a finally: b *)
Definition try_finally (a b : M) : M := fun g =>
  match a g with
  | None => None
  | Some (st, g1, l1) =>
    match b g1 with
    | None => None
    | Some (st', g2, l2) => Some (match st' with GNormal => st | _ => st' end, g2, l1 ++ l2)
    end
  end.
"""


def translate():
    mod = ast.parse(open(SRC).read())
    hubs = [n for n in mod.body if isinstance(n, ast.ClassDef) and n.name == 'Hub']
    if len(hubs) != 1:
        raise Unsupported('class Hub not found exactly once')
    meths = {}
    for n in hubs[0].body:
        if isinstance(n, ast.FunctionDef):
            if n.name in meths:
                fail(n, 'method defined twice')
            meths[n.name] = n
    # _mro_count
    mros = [n for n in mod.body if isinstance(n, ast.FunctionDef) and n.name == '_mro_count']
    if len(mros) != 1:
        raise Unsupported('_mro_count not found exactly once')
    fn = mros[0]
    if [a.arg for a in fn.args.args] != ['obj'] or fn.decorator_list or len(fn.body) != 1 or not isinstance(fn.body[0], ast.Return):
        fail(fn, '_mro_count shape (def _mro_count(obj): return <expr>)')
    c = Ctx('_mro_count', 'expr', {'obj': CLS})
    t, k = ex(fn.body[0].value, c)
    if c.binds or k != Z:
        fail(fn, '_mro_count must be an integer expression that cannot raise')
    defs = ['Definition hub_mro_count (o : ops) (obj : cls) : Z := %s.\n' % t]
    rec_fields = [('call_handler', 'H -> gmsg -> M'), ('rec_broadcast', 'gmsg -> M')]
    pure_defs, m_defs = [], []
    for name, mode, params in METHODS:
        fn = meths.get(name)
        if fn is None:
            raise Unsupported('Hub.%s not found' % name)
        a = fn.args
        if [x.arg for x in a.args] != ['self'] + [p for p, _ in params] or a.vararg or a.kwarg or a.kwonlyargs or a.posonlyargs:
            fail(fn, 'signature of %s' % name)
        decos = [ast.unparse(d) for d in fn.decorator_list]
        if decos != (['contextmanager'] if mode == 'ctx' else []):
            fail(fn, 'decorators of %s' % name)
        c = Ctx(name, mode, dict(params))
        c.yields = [0]
        body = blk(list(fn.body), c, None if mode == 'pure' else RET)
        if mode == 'pure' and c.yields[0] != 1:
            fail(fn, 'the generator must yield in exactly one place (its final loop)')
        if mode == 'ctx' and c.yields[0] != 1:
            fail(fn, 'a context manager must yield exactly once')
        nyield = sum(1 for n in ast.walk(fn) if isinstance(n, (ast.Yield, ast.YieldFrom)))
        if nyield != c.yields[0]:
            fail(fn, 'yield in an unexpected place')
        ps = ''.join(' (%s : %s)' % (cq(p), ty(t)) for p, t in params)
        cname = 'hub_' + name.lstrip('_')
        if mode == 'pure':
            pure_defs += c.aux
            pure_defs.append('Definition %s (o : ops) (g : ghub)%s : option (%s) :=\n%s.\n' % (cname, ps, ty(FIND_RET), body))
        else:
            m_defs += c.aux
            extra = ' (body : M)' if mode == 'ctx' else ''
            m_defs.append('Definition %s (o : ops) (r : recs)%s%s : M := fun g =>\n%s.\n' % (cname, extra, ps, body))
        rec_fields += c.rec_fields
    # default values of subscribe's keyword parameters (informative constants)
    sub = meths['subscribe']
    dflt = dict(zip([x.arg for x in sub.args.args][-len(sub.args.defaults):], sub.args.defaults)) if sub.args.defaults else {}
    consts = []
    if 'priority' in dflt:
        d = dflt['priority']
        if not (isinstance(d, ast.Constant) and isinstance(d.value, int) and not isinstance(d.value, bool)):
            fail(d, 'default priority is not an integer literal')
        consts.append('Definition hub_subscribe_default_priority : Z := %d.\n' % d.value)
    else:
        consts.append('Definition hub_subscribe_default_priority : option Z := None.\n')
    if 'handler' in dflt:
        d = dflt['handler']
        if not (isinstance(d, ast.Constant) and d.value is None):
            fail(d, 'default handler is not None')
    # Hub.__init__: the initial values of the four attributes (the registration of the constructor arguments is not translated)
    init = meths.get('__init__')
    if init is None:
        raise Unsupported('Hub.__init__ not found')
    vals = {}
    for n in ast.walk(init):
        if isinstance(n, (ast.Assign, ast.AugAssign, ast.AnnAssign)):
            tg = n.targets if isinstance(n, ast.Assign) else [n.target]
            for t_ in tg:
                for x in ast.walk(t_):
                    if is_self_field(x):
                        if not isinstance(n, ast.Assign) or len(n.targets) != 1 or x is not n.targets[0] or x.attr in vals or n not in init.body:
                            fail(n, 'Hub.__init__ must assign each of the hub attributes exactly once, at top level')
                        vals[x.attr] = n.value
    INIT_FORMS = {'_subscriptions': ('WeakKeyDictionary()', '[]'), '_queue': ('[]', '[]'), '_ignore': ('Counter()', '[]')}
    fields = []
    for attr, (f, tf) in FIELDS.items():
        if attr not in vals:
            raise Unsupported('Hub.__init__ does not initialise self.%s' % attr)
        v = vals[attr]
        if tf == Z:
            if not (isinstance(v, ast.Constant) and isinstance(v.value, int) and not isinstance(v.value, bool)):
                fail(v, 'initial value of self.%s is not an integer literal' % attr)
            fields.append('g_%s := %s' % (f, str(v.value) if v.value >= 0 else '(%d)' % v.value))
        else:
            if ast.unparse(v) != INIT_FORMS[attr][0]:
                fail(v, 'initial value of self.%s is not %s' % (attr, INIT_FORMS[attr][0]))
            fields.append('g_%s := %s' % (f, INIT_FORMS[attr][1]))
    consts.append('Definition hub_init : ghub := {| %s |}.\n' % '; '.join(fields))
    recs = 'Record recs := {\n' + ';\n'.join('  %s : %s' % f for f in rec_fields) + '\n}.\n'
    out = [PRELUDE.replace('<<HCC>>', '(* translated from glue/core/hub_callback_container.py *)\n' + translate_container()),
           '(* ---- translated from glue/core/hub.py ---- *)', ''] + defs + pure_defs + [
        '(* what the hub calls back: handlers, and its own methods / the rest of its loops through the interpreter *)', recs] + m_defs + consts
    out.append('End Hub.\n')
    return '\n'.join(out)


# ----------------------------------------------------------------------------- HubCallbackContainer
# _wrap / __getitem__ / is_bound_method deal in weak references; their trusted reading is "what __setitem__ stores,
# __getitem__ gives back (as long as the objects are alive)".  They are pinned: any edit of their text makes the
# translation fail, so that the reading is looked at again.
HCC_PINNED = {'_wrap': 'cf92447c4a169ec536708af7', '__getitem__': '997ad435df7e2bf59db7f0ea', 'is_bound_method': 'ea5003a549119d77142e6285'}


def strip_doc(body):
    return [s for s in body if not (isinstance(s, ast.Expr) and isinstance(s.value, ast.Constant) and isinstance(s.value.value, str))]


def pin_of(fn):
    import hashlib
    fn = ast.parse(ast.unparse(fn)).body[0]
    fn.body = strip_doc(fn.body) or [ast.Pass()]
    return hashlib.sha256(ast.unparse(fn).encode()).hexdigest()[:24]


def translate_container():
    """HubCallbackContainer: __init__, __contains__, keys, pop, __setitem__ translated (each a single statement / return over
    the plain dict self.callbacks); _wrap, __getitem__, is_bound_method pinned."""
    mod = ast.parse(open(HCC_SRC).read())
    cl = [n for n in mod.body if isinstance(n, ast.ClassDef) and n.name == 'HubCallbackContainer']
    if len(cl) != 1:
        raise Unsupported('class HubCallbackContainer not found exactly once')
    meths = {}
    for n in cl[0].body:
        if isinstance(n, ast.FunctionDef):
            if n.name in meths:
                fail(n, 'method defined twice')
            meths[n.name] = n
    for name, want in HCC_PINNED.items():
        if name not in meths:
            raise Unsupported('HubCallbackContainer.%s not found' % name)
        if pin_of(meths[name]) != want:
            fail(meths[name], 'HubCallbackContainer.%s changed: its trusted reading (a stored (handler, filter, priority) is returned '
                              'unchanged by __getitem__) must be examined again; text hash %s' % (name, pin_of(meths[name])))

    def get(name, params):
        fn = meths.get(name)
        if fn is None:
            raise Unsupported('HubCallbackContainer.%s not found' % name)
        a = fn.args
        if [x.arg for x in a.args] != ['self'] + params or a.vararg or a.kwarg or a.kwonlyargs or a.posonlyargs or a.defaults or fn.decorator_list:
            fail(fn, 'signature of HubCallbackContainer.%s' % name)
        return fn, strip_doc(fn.body)

    def single_return(name, params, env):
        fn, body = get(name, params)
        if len(body) != 1 or not isinstance(body[0], ast.Return) or body[0].value is None:
            fail(fn, 'HubCallbackContainer.%s must be a single return statement' % name)
        return fn, body[0].value, Ctx(name, 'hcc', env)

    out = []
    fn, body = get('__init__', [])
    if len(body) != 1 or ast.unparse(body[0]) != 'self.callbacks = {}':
        fail(fn, 'HubCallbackContainer.__init__ must be `self.callbacks = {}`')
    out.append('Definition hcc_new : container := [].')
    fn, v, c = single_return('__contains__', ['message_class'], {'message_class': CLS})
    t, k = ex(v, c)
    if k != BOOL or c.binds:
        fail(fn, '__contains__ result')
    out.append('Definition hcc_contains (message_class : cls) (c : container) : bool := %s.' % t)
    fn, v, c = single_return('keys', [], {})
    t, k = ex(v, c)
    if k != LIST(CLS) or c.binds:
        fail(fn, 'keys result')
    out.append('Definition hcc_keys (c : container) : list cls := %s.' % t)
    fn, v, c = single_return('pop', ['message_class'], {'message_class': CLS})
    if not (isinstance(v, ast.Call) and isinstance(v.func, ast.Attribute) and v.func.attr == 'pop' and len(v.args) == 1 and not v.keywords):
        fail(fn, 'pop must return self.callbacks.pop(<key>)')
    d, td = ex(v.func.value, c)
    key, tk = ex(v.args[0], c)
    if td != PLAIN_CALLBACKS or tk != CLS or c.binds:
        fail(fn, 'pop form')
    out.append('Definition hcc_pop (message_class : cls) (c : container) : option container := d_pop %s %s.   (* None = KeyError; the popped value is not used by the hub *)' % (key, d))
    fn, body = get('__setitem__', ['message_class', 'value'])
    c = Ctx('__setitem__', 'hcc', {'message_class': CLS, 'value': TUP(H, F, Z)})
    if len(body) != 2 or not all(isinstance(b, ast.Assign) and len(b.targets) == 1 for b in body):
        fail(fn, '__setitem__ must be: a, b, c = value ; self.callbacks[k] = self._wrap(a, b, c)')
    v0, t0 = ex(body[0].value, c)
    pat, names = target_pattern(body[0].targets[0], c, t0)
    c.env.update(names)
    tgt, val = body[1].targets[0], body[1].value
    if not (isinstance(tgt, ast.Subscript) and isinstance(val, ast.Call) and ast.unparse(val.func) == 'self._wrap' and not val.keywords):
        fail(fn, '__setitem__ second statement')
    d, td = ex(tgt.value, c)
    key, tk = ex(tgt.slice, c)
    args = [ex(x, c) for x in val.args]
    if td != PLAIN_CALLBACKS or tk != CLS or [a[1] for a in args] != [H, F, Z] or c.binds:
        fail(fn, '__setitem__ kinds')
    out.append("Definition hcc_setitem (message_class : cls) (value : H * F * Z) (c : container) : container :=\n"
               "let '%s := %s in\nd_setitem %s (hcc_wrap %s) %s." % (pat, v0, key, ' '.join(a[0] for a in args), d))
    return '\n'.join(out) + '\n'


# ----------------------------------------------------------------------------- class table of glue.core.message
def class_table():
    """the Message classes of glue.core.message, from the live package: parents, number of bases, _mro_count, issubclass"""
    sys.path.insert(0, REPO)
    import importlib
    import inspect
    msgmod = importlib.import_module('glue.core.message')
    hubmod = importlib.import_module('glue.core.hub')
    if os.path.realpath(inspect.getsourcefile(hubmod)) != os.path.realpath(SRC):
        raise Unsupported('the imported glue.core.hub is not the file that was translated: %s' % inspect.getsourcefile(hubmod))
    base = msgmod.Message
    classes = [v for v in vars(msgmod).values() if isinstance(v, type) and issubclass(v, base) and v.__module__ == msgmod.__name__]
    classes.sort(key=lambda k: (inspect.getsourcelines(k)[1], k.__name__))
    if not classes or classes[0] is not base:
        raise Unsupported('Message is not the first class of glue/core/message.py')
    idx = {k: i for i, k in enumerate(classes)}
    parents, nbases, counts = [], [], []
    for k in classes:
        b = k.__bases__[0]
        parents.append(idx[k] if k is base else idx.get(b, -1))
        nbases.append(len(k.__bases__))
        counts.append(hubmod._mro_count(k))
        if parents[-1] < 0:
            raise Unsupported('first base of %s is not a message class of the module' % k.__name__)
    sub = [[issubclass(a, b) for b in classes] for a in classes]
    out = ['(* ---- the message classes of glue/core/message.py (live package): %s ---- *)' % ', '.join('%d %s' % (i, k.__name__) for i, k in enumerate(classes)),
           'Definition msg_parents : list nat := [%s]%%nat.' % '; '.join(str(p) for p in parents),
           'Definition msg_nbases : list nat := [%s]%%nat.' % '; '.join(str(p) for p in nbases),
           'Definition msg_mro_counts : list Z := [%s].' % '; '.join(str(p) for p in counts),
           'Definition msg_issubclass : list (list bool) := [\n%s].' % ';\n'.join(
               '  [' + '; '.join('true' if x else 'false' for x in row) + ']' for row in sub), '']
    return '\n'.join(out)


def generate():
    text = translate() + '\n' + class_table()
    if not os.path.exists(OUT) or open(OUT).read() != text:
        open(OUT, 'w').write(text)


if __name__ == '__main__':
    try:
        generate()
    except Unsupported as e:
        print('TRANSLATION-FAILED: %s' % e)
        sys.exit(3)
    print('ok', OUT)
