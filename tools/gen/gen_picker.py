#!/usr/bin/env python3
r"""
Regenerate coq/gen/Gen_picker.v from the *current* source of glue/core/data_combo_helper.py:

  ComponentIDComboHelper.refresh        statement by statement: which entries the combo offers, in which order, under which flags
  ComponentIDComboHelper._filter_msg    the subscription filter
  ComponentIDComboHelper.register_to_hub  the subscription table (message class -> handler, filter, and the condition under which
                                        the entry is made)
  ComponentIDComboHelper.remove_data, _remove_data, clear     the guards and the order list-update / refresh
  the seven flag properties (numeric, datetime, categorical, pixel_coord, world_coord, derived, none): getters checked to be
  `return self._<flag>`, setters translated (`self._<flag> = value; self.refresh()`; for `none` the isinstance(value, str) split)

  and, for the dataset pickers (second half of the generated file):
  unique_data_iter                      the de-duplication loop (datasets only: the isinstance(.., BaseData) test is statically true)
  BaseDataComboHelper.refresh, _on_data_update
  ManualDataComboHelper.append_data, remove_data, set_multiple_data, _remove_data_msg, _filter_msg, _filter_msg_dc, register_to_hub
  DataCollectionComboHelper._filter_msg_in, _filter_msg_is, register_to_hub
  forms there: `if C: return`, `if C: ..` / else, self._datasets.append / remove / clear, self.refresh(), self.refresh_component_ids() (no helper
  attached in the model), calls of the translated procedures, `for data in unique_data_iter(datasets): self.append_data(data, refresh=False)`,
  `if self.hub is None and data.hub is not None: self.hub = data.hub` (hub adoption, no model effect), self.choices = [data for data in self._datasets],
  X in / not in self._datasets, msg.sender / msg.data / msg.attribute == 'label', msg.sender is self._data_collection / self._datasets

FAIL-CLOSED: every accepted form is listed here; anything else aborts with the line number (exit 3).

refresh works on local variables that it rebinds and extends; the translation is a let-chain in which an `if` / `for` returns the
tuple of the locals it rebinds (a `for` is a fold_left over that tuple).
Types   helper (self), data (gdata), cid (gcid: id, kind, is-its-parent-this-dataset), choices (list gchoice), cids (list gcid),
        datas (list gdata), bool, int, str (kind names 'numerical' 'datetime' 'categorical', the empty string), label
Expressions
  names, integer literals, None, [], [ChoiceSeparator('<known literal>')], ChoiceSeparator(data.label), ChoiceSeparator('<known literal>')
  self._none, self._data, self.numeric / datetime / categorical / pixel_coord / world_coord / derived (checked getters), self._manual_data
  data.main_components, data.derived_components, data.pixel_component_ids, data.world_component_ids, data.label, data.get_kind(cid),
  cid.parent is data, msg.sender, msg.data
  len(L), A > n, A == 'str', A is None, A in self._data, A and B, A or B, L[1:], [v for v in L if C]
Statements (refresh)
  v = E     v += L     v.append(E)     if / else     for v in L: ..     and, as the last statement, self.choices = <choices variable>
Statements (remove_data, _remove_data, clear, setters)
  if self._manual_data: raise Exception(..)      if X in self._data: ..      self._data.remove(X)     self._data.clear()
  self._<flag> = value      self._none_label = ..   (no model effect)     self.refresh()     self.remove_data(msg.data)
  if isinstance(value, str): .. else: ..   (the model's values are booleans: statically false, the else side is kept)
"""
import ast
import os
import sys

REPO = os.environ.get('GLUE_REPO', '/repo')
HERE = os.path.dirname(os.path.abspath(__file__))
OUT = os.path.join(os.path.dirname(os.path.dirname(HERE)), 'coq/gen/Gen_picker.v')
SRC = 'glue/core/data_combo_helper.py'
CLS = 'ComponentIDComboHelper'

FLAGS = ['numeric', 'datetime', 'categorical', 'pixel_coord', 'world_coord', 'derived', 'none']
SEP_TEXT = {'Main components': 2, 'Derived components': 3, 'Coordinate components': 4, 'Untitled Data': 5}
KIND = {'numerical': 0, 'datetime': 1, 'categorical': 2}
KNOWN_MSGS = ['DataRenameComponentMessage', 'DataReorderComponentMessage', 'ComponentsChangedMessage', 'DataCollectionDeleteMessage']


class Unsupported(Exception):
    pass


def fail(node, why):
    raise Unsupported('%s line %s: %s: %s' % (SRC, getattr(node, 'lineno', '?'), why, ast.unparse(node)[:140]))


def is_name(e, n=None):
    return isinstance(e, ast.Name) and (n is None or e.id == n)


RESERVED = {'end', 'in', 'let', 'match', 'with', 'fun', 'if', 'then', 'else', 'return', 'as', 'at', 'fix', 'forall', 'exists', 'self'}


def vn(n):
    return n + '_' if n in RESERVED else n


# ------------------------------------------------------------------ expressions
def ex(e, env):
    if isinstance(e, ast.Constant):
        if e.value is None:
            return 'None', 'nonelit'
        if isinstance(e.value, bool):
            return ('true' if e.value else 'false'), 'bool'
        if isinstance(e.value, int):
            return '%d' % e.value, 'int'
        if e.value == '':
            return 'LABEL_empty', 'label'
        if e.value in KIND:
            return '%d' % KIND[e.value], 'kind'
        fail(e, 'constant')
    if isinstance(e, ast.Name):
        if e.id not in env:
            fail(e, 'unknown variable')
        return vn(e.id), env[e.id]
    if isinstance(e, ast.List):
        if not e.elts:
            return '[]', 'choices'
        vals = [choice_elem(x, env) for x in e.elts]
        return '[%s]' % '; '.join(vals), 'choices'
    if isinstance(e, ast.Attribute):
        v, t = ex(e.value, env)
        a = e.attr
        if t == 'helper':
            if a == '_none':
                return '(hp_none self_)', 'bool'
            if a == '_data':
                return '(hp_data self_)', 'datas'
            if a == '_manual_data':
                return '(hp_manual self_)', 'bool'
            if a == '_data_collection':
                return '(* data_collection *)', 'optdc'
            if a in FLAGS[:-1]:
                return '(hp_%s self_)' % a, 'bool'
        if t == 'data':
            lists = {'main_components': 'gd_main', 'derived_components': 'gd_derived', 'pixel_component_ids': 'gd_pixel', 'world_component_ids': 'gd_world'}
            if a in lists:
                return '(%s %s)' % (lists[a], v), 'cids'
            if a == 'label':
                return '(gd_label %s)' % v, 'label'
        if t == 'cid' and a == 'parent':
            return v, 'cidparent'
        if t == 'msg' and a in ('sender', 'data'):
            return '(msg_data %s)' % v, 'dataref'
        fail(e, 'attribute .%s of a %s' % (a, t))
    if isinstance(e, ast.Compare) and len(e.ops) == 1:
        op, a, b = e.ops[0], e.left, e.comparators[0]
        (va, ta), (vb, tb) = ex(a, env), ex(b, env)
        if isinstance(op, (ast.Is, ast.IsNot)):
            neg = isinstance(op, ast.IsNot)
            if ta == 'cidparent' and tb == 'data':
                r = '(c_owned %s)' % va      # the model records, per derived component, whether its parent is this dataset
            elif ta == 'label' and tb == 'nonelit':
                r = '(label_is_none %s)' % va
            elif ta == 'optdc' and tb == 'nonelit':
                r = '(negb (hp_has_dc self_))'
            else:
                fail(e, 'identity test between %s and %s' % (ta, tb))
            return (('(negb %s)' % r) if neg else r), 'bool'
        if isinstance(op, ast.Eq):
            if ta == 'label' and tb == 'label':
                return '(label_eqb %s %s)' % (va, vb), 'bool'
            if ta == 'kind' and tb == 'kind':
                return '(%s =? %s)' % (va, vb), 'bool'
            fail(e, 'equality between %s and %s' % (ta, tb))
        if isinstance(op, ast.Gt) and ta == 'int' and tb == 'int':
            return '(%s >? %s)' % (va, vb), 'bool'
        if isinstance(op, (ast.In, ast.NotIn)) and ta == 'dataref' and tb == 'datas':
            r = '(data_mem %s %s)' % (va, vb)
            return (('(negb %s)' % r) if isinstance(op, ast.NotIn) else r), 'bool'
        fail(e, 'comparison')
    if isinstance(e, ast.BoolOp):
        parts = [ex(v, env) for v in e.values]
        if any(t != 'bool' for _, t in parts):
            fail(e, 'and/or over non-booleans')
        return '(' + (' && ' if isinstance(e.op, ast.And) else ' || ').join(v for v, _ in parts) + ')', 'bool'
    if isinstance(e, ast.Subscript) and isinstance(e.slice, ast.Slice) and e.slice.upper is None and e.slice.step is None \
            and isinstance(e.slice.lower, ast.Constant) and e.slice.lower.value == 1:
        v, t = ex(e.value, env)
        if t not in ('choices', 'cids'):
            fail(e, 'slice of a %s' % t)
        return '(tl %s)' % v, t
    if isinstance(e, ast.ListComp) and len(e.generators) == 1 and len(e.generators[0].ifs) == 1 and is_name(e.generators[0].target) \
            and is_name(e.elt, e.generators[0].target.id):
        g = e.generators[0]
        lv, lt = ex(g.iter, env)
        if lt != 'cids':
            fail(e, 'comprehension over a %s' % lt)
        cv, ct = ex(g.ifs[0], dict(env, **{g.target.id: 'cid'}))
        if ct != 'bool':
            fail(e, 'comprehension filter')
        return '(filter (fun %s => %s) %s)' % (vn(g.target.id), cv, lv), 'cids'
    if isinstance(e, ast.Call):
        if is_name(e.func, 'len') and len(e.args) == 1 and not e.keywords:
            v, t = ex(e.args[0], env)
            if t not in ('choices', 'cids', 'datas'):
                fail(e, 'len of a %s' % t)
            return '(Z.of_nat (length %s))' % v, 'int'
        if isinstance(e.func, ast.Attribute) and e.func.attr == 'get_kind' and len(e.args) == 1 and not e.keywords:
            dv, dt = ex(e.func.value, env)
            cv, ct = ex(e.args[0], env)
            if dt == 'data' and ct == 'cid':
                return '(c_kind %s)' % cv, 'kind'      # the kind of the component in its dataset
        fail(e, 'call in an expression')
    fail(e, 'expression')


def choice_elem(e, env):
    """an element put into a list of choices"""
    if isinstance(e, ast.Constant) and e.value is None:
        return 'GNone'
    if isinstance(e, ast.Call) and is_name(e.func, 'ChoiceSeparator') and len(e.args) == 1 and not e.keywords:
        a = e.args[0]
        if isinstance(a, ast.Constant) and a.value in SEP_TEXT:
            return 'GSepText %d' % SEP_TEXT[a.value]
        v, t = ex(a, env)
        if t == 'label' and isinstance(a, ast.Attribute) and a.attr == 'label':
            dv = ex(a.value, env)[0]
            return 'GSepLabel (gd_id %s)' % dv
        fail(e, 'separator text')
    v, t = ex(e, env)
    if t == 'cid':
        return 'GAtt (c_id %s)' % v
    fail(e, 'list element of type %s' % t)


# ------------------------------------------------------------------ refresh: locals
def assigned(stmts):
    out = []

    def add(n):
        if n not in out:
            out.append(n)
    for s in stmts:
        for n in ast.walk(s):
            if isinstance(n, ast.Assign):
                for t in n.targets:
                    if is_name(t):
                        add(t.id)
            elif isinstance(n, ast.AugAssign) and is_name(n.target):
                add(n.target.id)
            elif isinstance(n, ast.Call) and isinstance(n.func, ast.Attribute) and n.func.attr == 'append' and is_name(n.func.value):
                add(n.func.value.id)
    return out


def tup(names):
    return vn(names[0]) if len(names) == 1 else '(%s)' % ', '.join(vn(n) for n in names)


def pat(names):
    return vn(names[0]) if len(names) == 1 else "'(%s)" % ', '.join(vn(n) for n in names)


def tr_locals(stmts, env, result):
    """stmts, then the value `result` (gallina text) -- a let-chain"""
    if not stmts:
        return result
    s, rest = stmts[0], stmts[1:]
    if isinstance(s, ast.Expr) and isinstance(s.value, ast.Constant):
        return tr_locals(rest, env, result)
    if isinstance(s, ast.Assign) and len(s.targets) == 1 and is_name(s.targets[0]):
        v, t = ex(s.value, env)
        if t not in ('choices', 'cids'):
            fail(s, 'local of type %s' % t)
        return 'let %s := %s in\n%s' % (vn(s.targets[0].id), v, tr_locals(rest, dict(env, **{s.targets[0].id: t}), result))
    if isinstance(s, ast.AugAssign) and isinstance(s.op, ast.Add) and is_name(s.target):
        x = s.target.id
        if env.get(x) != 'choices':
            fail(s, '+= on a %s' % env.get(x))
        v, t = ex(s.value, env)
        if t == 'cids':
            v = '(map (fun c_ => GAtt (c_id c_)) %s)' % v
        elif t != 'choices':
            fail(s, '+= of a %s' % t)
        return 'let %s := %s ++ %s in\n%s' % (vn(x), vn(x), v, tr_locals(rest, env, result))
    if isinstance(s, ast.Expr) and isinstance(s.value, ast.Call) and isinstance(s.value.func, ast.Attribute) and s.value.func.attr == 'append' \
            and is_name(s.value.func.value) and len(s.value.args) == 1 and not s.value.keywords:
        x = s.value.func.value.id
        if env.get(x) != 'choices':
            fail(s, 'append to a %s' % env.get(x))
        return 'let %s := %s ++ [%s] in\n%s' % (vn(x), vn(x), choice_elem(s.value.args[0], env), tr_locals(rest, env, result))
    if isinstance(s, ast.If):
        cv, ct = ex(s.test, env)
        if ct != 'bool':
            fail(s, 'condition of type %s' % ct)
        m = [n for n in assigned(s.body + s.orelse) if n in env]
        for n in assigned(s.body + s.orelse):
            if n not in env:
                fail(s, 'a branch binds the new local %s' % n)
        if not m:
            fail(s, 'an if without effect on the locals')
        a = tr_locals(s.body, env, tup(m))
        b = tr_locals(s.orelse, env, tup(m))
        return 'let %s := (if %s then\n%s\nelse\n%s) in\n%s' % (pat(m), cv, a, b, tr_locals(rest, env, result))
    if isinstance(s, ast.For) and is_name(s.target) and not s.orelse:
        lv, lt = ex(s.iter, env)
        elem = {'datas': 'data', 'cids': 'cid'}.get(lt)
        if elem is None:
            fail(s, 'loop over a %s' % lt)
        for n in ast.walk(ast.Module(body=s.body, type_ignores=[])):
            if isinstance(n, (ast.Break, ast.Continue, ast.Return, ast.Raise)):
                fail(n, 'break/continue/return/raise in a loop')
        m = [n for n in assigned(s.body) if n in env]      # rebinds of outer locals are carried; new locals live for one iteration
        if not m:
            fail(s, 'a loop without effect on the locals')
        body = tr_locals(s.body, dict(env, **{s.target.id: elem}), tup(m))
        head = 'fun %s %s' % (pat(m), vn(s.target.id))
        return 'let %s := fold_left (%s =>\n%s) %s %s in\n%s' % (pat(m), head, body, lv, tup(m), tr_locals(rest, env, result))
    fail(s, 'statement')


# ------------------------------------------------------------------ small procedures: helper -> outcome
def tr_proc(stmts, env, value_flag=None):
    """-> gallina of type option helper (None = the exception of the _manual_data guard)"""
    if not stmts:
        return 'Some self_'
    s, rest = stmts[0], stmts[1:]
    if isinstance(s, ast.Expr) and isinstance(s.value, ast.Constant):
        return tr_proc(rest, env, value_flag)
    txt = ast.unparse(s)
    if isinstance(s, ast.If):
        t = s.test
        if ast.unparse(t) == 'self._manual_data' and len(s.body) == 1 and isinstance(s.body[0], ast.Raise) and not s.orelse:
            return 'if hp_manual self_ then None else\n%s' % tr_proc(rest, env, value_flag)
        if isinstance(t, ast.Call) and is_name(t.func, 'isinstance') and len(t.args) == 2 and is_name(t.args[0], 'value') and is_name(t.args[1], 'str') \
                and env.get('value') == 'bool':
            return '(* isinstance(value, str): the model passes booleans; the else side *)\n' + tr_proc(list(s.orelse) + rest, env, value_flag)
        cv, ct = ex(t, env)
        if ct != 'bool' or s.orelse:
            fail(s, 'if form')
        if rest:
            fail(rest[0], 'code after a conditional block')
        return 'if %s then\n%s\nelse Some self_' % (cv, tr_proc(s.body, env, value_flag))
    if isinstance(s, ast.Expr) and isinstance(s.value, ast.Call):
        c = s.value
        if txt == 'self.refresh()':
            return 'let self_ := mark_refresh self_ in\n%s' % tr_proc(rest, env, value_flag)
        if txt == 'self._data.clear()':
            return 'let self_ := set_data [] self_ in\n%s' % tr_proc(rest, env, value_flag)
        if isinstance(c.func, ast.Attribute) and ast.unparse(c.func) == 'self._data.remove' and len(c.args) == 1 and not c.keywords:
            v, t = ex(c.args[0], env)
            if t != 'dataref':
                fail(s, 'removal of a %s' % t)
            return 'let self_ := set_data (remove_data_ref %s (hp_data self_)) self_ in\n%s' % (v, tr_proc(rest, env, value_flag))
        if isinstance(c.func, ast.Attribute) and ast.unparse(c.func) == 'self.remove_data' and len(c.args) == 1 and not c.keywords:
            v, t = ex(c.args[0], env)
            if t != 'dataref' or rest:
                fail(s, 'remove_data call')
            return '%s_remove_data self_ %s' % (CLS, v)
    if isinstance(s, ast.Assign) and len(s.targets) == 1 and isinstance(s.targets[0], ast.Attribute) and is_name(s.targets[0].value, 'self'):
        a = s.targets[0].attr
        if a == '_none_label':
            return '(* %s : no model effect *)\n' % txt + tr_proc(rest, env, value_flag)
        if a == '_' + str(value_flag) and is_name(s.value, 'value') and env.get('value') == 'bool':
            return 'let self_ := set_flag_%s value self_ in\n%s' % (value_flag, tr_proc(rest, env, value_flag))
    fail(s, 'statement')


PRE = r"""(* GENERATED by tools/gen/gen_picker.py from glue/core/data_combo_helper.py on every run -- do not edit. *)
From Coq Require Import ZArith List Bool.
Import ListNotations.
Open Scope Z_scope.

(* ---------- fixed preamble ---------- *)
(* a component as the picker sees it: identity, data.get_kind(cid) (0 numerical, 1 datetime, 2 categorical, other), and for the
   members of data.derived_components whether `cid.parent is data` *)
Record gcid : Type := mkCid { c_id : Z; c_kind : Z; c_owned : bool }.
(* label: None, or Some code (code 0 = the empty string) *)
Definition LABEL_empty : option Z := Some 0.
Definition label_is_none (l : option Z) : bool := match l with None => true | Some _ => false end.
Definition label_eqb (a b : option Z) : bool := match a, b with Some x, Some y => x =? y | None, None => true | _, _ => false end.
Record gdata : Type := mkData { gd_id : Z; gd_label : option Z; gd_main : list gcid; gd_derived : list gcid; gd_pixel : list gcid; gd_world : list gcid }.
(* an entry of the combo: None, ChoiceSeparator(data.label), ChoiceSeparator('<literal>') (2 Main / 3 Derived / 4 Coordinate components,
   5 Untitled Data), a component *)
Inductive gchoice : Type := GNone | GSepLabel (d : Z) | GSepText (k : Z) | GAtt (c : Z).
Record helper : Type := mkHelper {
  hp_none : bool; hp_numeric : bool; hp_datetime : bool; hp_categorical : bool; hp_pixel_coord : bool; hp_world_coord : bool; hp_derived : bool;
  hp_data : list gdata;            (* self._data *)
  hp_manual : bool;                (* self._manual_data *)
  hp_has_dc : bool;                (* self._data_collection is not None *)
  hp_refreshes : Z                 (* how many times refresh() was called by the procedures below *)
}.
Definition set_data (v : list gdata) (s : helper) : helper :=
  mkHelper (hp_none s) (hp_numeric s) (hp_datetime s) (hp_categorical s) (hp_pixel_coord s) (hp_world_coord s) (hp_derived s) v (hp_manual s) (hp_has_dc s) (hp_refreshes s).
Definition mark_refresh (s : helper) : helper :=
  mkHelper (hp_none s) (hp_numeric s) (hp_datetime s) (hp_categorical s) (hp_pixel_coord s) (hp_world_coord s) (hp_derived s) (hp_data s) (hp_manual s) (hp_has_dc s) (hp_refreshes s + 1).
Definition set_flag_numeric (b : bool) (s : helper) : helper :=
  mkHelper (hp_none s) b (hp_datetime s) (hp_categorical s) (hp_pixel_coord s) (hp_world_coord s) (hp_derived s) (hp_data s) (hp_manual s) (hp_has_dc s) (hp_refreshes s).
Definition set_flag_datetime (b : bool) (s : helper) : helper :=
  mkHelper (hp_none s) (hp_numeric s) b (hp_categorical s) (hp_pixel_coord s) (hp_world_coord s) (hp_derived s) (hp_data s) (hp_manual s) (hp_has_dc s) (hp_refreshes s).
Definition set_flag_categorical (b : bool) (s : helper) : helper :=
  mkHelper (hp_none s) (hp_numeric s) (hp_datetime s) b (hp_pixel_coord s) (hp_world_coord s) (hp_derived s) (hp_data s) (hp_manual s) (hp_has_dc s) (hp_refreshes s).
Definition set_flag_pixel_coord (b : bool) (s : helper) : helper :=
  mkHelper (hp_none s) (hp_numeric s) (hp_datetime s) (hp_categorical s) b (hp_world_coord s) (hp_derived s) (hp_data s) (hp_manual s) (hp_has_dc s) (hp_refreshes s).
Definition set_flag_world_coord (b : bool) (s : helper) : helper :=
  mkHelper (hp_none s) (hp_numeric s) (hp_datetime s) (hp_categorical s) (hp_pixel_coord s) b (hp_derived s) (hp_data s) (hp_manual s) (hp_has_dc s) (hp_refreshes s).
Definition set_flag_derived (b : bool) (s : helper) : helper :=
  mkHelper (hp_none s) (hp_numeric s) (hp_datetime s) (hp_categorical s) (hp_pixel_coord s) (hp_world_coord s) b (hp_data s) (hp_manual s) (hp_has_dc s) (hp_refreshes s).
Definition set_flag_none (b : bool) (s : helper) : helper :=
  mkHelper b (hp_numeric s) (hp_datetime s) (hp_categorical s) (hp_pixel_coord s) (hp_world_coord s) (hp_derived s) (hp_data s) (hp_manual s) (hp_has_dc s) (hp_refreshes s).
(* a hub message as the helper reads it: .sender of a data message / .data of a DataCollectionDeleteMessage, as the dataset's identity *)
Definition data_mem (d : Z) (l : list gdata) : bool := existsb (fun x => gd_id x =? d) l.
Fixpoint remove_data_ref (d : Z) (l : list gdata) : list gdata :=
  match l with [] => [] | x :: r => if gd_id x =? d then r else x :: remove_data_ref d r end.
"""



# ====================================================================== dataset pickers
DPRE = r"""
(* ---------- dataset pickers: fixed preamble ---------- *)
(* ManualDataComboHelper (its own list) / DataCollectionComboHelper (dh_datasets = the collection) *)
Record dhelper : Type := mkDH { dh_datasets : list Z; dh_refreshes : Z }.
Definition dset (v : list Z) (s : dhelper) : dhelper := mkDH v (dh_refreshes s).
Definition dmark (s : dhelper) : dhelper := mkDH (dh_datasets s) (dh_refreshes s + 1).
Definition idmem (x : Z) (l : list Z) : bool := existsb (Z.eqb x) l.
Fixpoint idremove (x : Z) (l : list Z) : list Z := match l with [] => [] | y :: r => if y =? x then r else y :: idremove x r end.
(* a hub message as the dataset pickers read it *)
Record dmsg : Type := mkDMsg { dm_sender_is_dc : bool; dm_sender : Z; dm_data : Z; dm_attr_is_label : bool }.
"""


def dex(e, env):
    """expressions of the dataset-picker procedures -> (gallina, type)"""
    if isinstance(e, ast.Name):
        if e.id not in env:
            fail(e, 'unknown variable')
        return vn(e.id), env[e.id]
    if isinstance(e, ast.Constant) and isinstance(e.value, bool):
        return ('true' if e.value else 'false'), 'bool'
    if isinstance(e, ast.Attribute):
        txt = ast.unparse(e)
        if txt == 'self._datasets':
            return '(dh_datasets self_)', 'ids'
        if is_name(e.value) and env.get(e.value.id) == 'dmsg':
            if e.attr == 'data':
                return '(dm_data %s)' % vn(e.value.id), 'id'
            if e.attr == 'sender':
                return vn(e.value.id), 'sender'
            if e.attr == 'attribute':
                return vn(e.value.id), 'attribute'
        fail(e, 'attribute')
    if isinstance(e, ast.Compare) and len(e.ops) == 1:
        op, a, b = e.ops[0], e.left, e.comparators[0]
        if isinstance(op, (ast.In, ast.NotIn)):
            (va, ta), (vb, tb) = dex(a, env), dex(b, env)
            if ta == 'sender' and tb == 'ids':
                r = '(negb (dm_sender_is_dc %s) && idmem (dm_sender %s) %s)' % (va, va, vb)
            elif ta == 'id' and tb == 'ids':
                r = '(idmem %s %s)' % (va, vb)
            else:
                fail(e, 'membership of %s in %s' % (ta, tb))
            return (('(negb %s)' % r) if isinstance(op, ast.NotIn) else r), 'bool'
        if isinstance(op, ast.Is):
            va, ta = dex(a, env)
            tb = ast.unparse(b)
            if ta == 'sender' and tb in ('self._data_collection', 'self._datasets') and env.get('#dc') == tb:
                return '(dm_sender_is_dc %s)' % va, 'bool'
            fail(e, 'identity test')
        if isinstance(op, ast.Eq):
            va, ta = dex(a, env)
            if ta == 'attribute' and isinstance(b, ast.Constant) and b.value == 'label':
                return '(dm_attr_is_label %s)' % va, 'bool'
            fail(e, 'equality')
    fail(e, 'expression')


DPROCS = {}      # (class, method) -> (gallina name, [param types])


def dblock(stmts, env, cls):
    """-> gallina of type dhelper: the helper after the statements"""
    if not stmts:
        return 'self_'
    s, rest = stmts[0], stmts[1:]
    if isinstance(s, ast.Expr) and isinstance(s.value, ast.Constant):
        return dblock(rest, env, cls)
    txt = ast.unparse(s)
    if isinstance(s, ast.If):
        if txt.replace('\n', ' ').replace('    ', '') == 'if self.hub is None and data.hub is not None: self.hub = data.hub':
            return '(* hub adoption: no model effect *)\n' + dblock(rest, env, cls)
        cv, ct = dex(s.test, env)
        if ct != 'bool':
            fail(s, 'condition')
        if len(s.body) == 1 and isinstance(s.body[0], ast.Return) and s.body[0].value is None and not s.orelse:
            return 'if %s then self_ else\n%s' % (cv, dblock(rest, env, cls))
        for side in (s.body, s.orelse):
            for n in ast.walk(ast.Module(body=side, type_ignores=[])):
                if isinstance(n, (ast.Return, ast.Raise)):
                    fail(n, 'return inside a branch')
        return 'let self_ := (if %s then\n%s\nelse\n%s) in\n%s' % (cv, dblock(s.body, env, cls), dblock(s.orelse, env, cls), dblock(rest, env, cls))
    if isinstance(s, ast.For) and is_name(s.target) and not s.orelse and ast.unparse(s.iter) == 'unique_data_iter(datasets)' and env.get('datasets') == 'ids':
        body = dblock(s.body, dict(env, **{s.target.id: 'id'}), cls)
        return 'let self_ := fold_left (fun self_ %s =>\n%s) (unique_data_iter datasets) self_ in\n%s' % (vn(s.target.id), body, dblock(rest, env, cls))
    if isinstance(s, ast.Assign) and txt == 'self.choices = [data for data in self._datasets]':
        return 'let self_ := dmark self_ in   (* self.choices = the datasets *)\n' + dblock(rest, env, cls)
    if isinstance(s, ast.Expr) and isinstance(s.value, ast.Call):
        c = s.value
        if txt == 'self.refresh()':
            return 'let self_ := BaseDataComboHelper_refresh self_ in\n' + dblock(rest, env, cls)
        if txt == 'self.refresh_component_ids()':
            return '(* refresh_component_ids(): no attribute picker is attached in the model *)\n' + dblock(rest, env, cls)
        if txt == 'self._on_rename(msg)':
            return '(* _on_rename: notifies the GUI, no refresh *)\n' + dblock(rest, env, cls)
        if txt == 'self._datasets.clear()':
            return 'let self_ := dset [] self_ in\n' + dblock(rest, env, cls)
        if isinstance(c.func, ast.Attribute) and ast.unparse(c.func) in ('self._datasets.append', 'self._datasets.remove') and len(c.args) == 1 and not c.keywords:
            v, t = dex(c.args[0], env)
            if t != 'id':
                fail(s, 'list element')
            new = '(dh_datasets self_ ++ [%s])' % v if c.func.attr == 'append' else '(idremove %s (dh_datasets self_))' % v
            return 'let self_ := dset %s self_ in\n%s' % (new, dblock(rest, env, cls))
        if isinstance(c.func, ast.Attribute) and is_name(c.func.value, 'self') and (cls, c.func.attr) in DPROCS:
            name, ptypes = DPROCS[(cls, c.func.attr)]
            args = list(c.args)
            kw = {k.arg: k.value for k in c.keywords}
            vals = []
            for i, (pn, pt) in enumerate(ptypes):
                a = args[i] if i < len(args) else kw.pop(pn, None)
                if a is None:
                    if pn == 'refresh':
                        vals.append('true')
                        continue
                    fail(s, 'missing argument')
                v, t = dex(a, env)
                if t != pt:
                    fail(s, 'argument type')
                vals.append(v)
            if kw:
                fail(s, 'keyword')
            return 'let self_ := %s self_ %s in\n%s' % (name, ' '.join(vals), dblock(rest, env, cls))
    fail(s, 'statement')


def find_cls(name):
    mod = ast.parse(open(os.path.join(REPO, SRC)).read())
    cs = [n for n in mod.body if isinstance(n, ast.ClassDef) and n.name == name]
    if len(cs) != 1:
        raise Unsupported('%s: class %s not found exactly once' % (SRC, name))
    return cs[0]


def one_method(cls, name, params):
    ms = [n for n in cls.body if isinstance(n, ast.FunctionDef) and n.name == name]
    if len(ms) != 1 or ms[0].decorator_list:
        raise Unsupported('%s: %s.%s not found exactly once' % (SRC, cls.name, name))
    m = ms[0]
    got = [a.arg for a in m.args.args]
    if got != ['self'] + params or m.args.kwarg or m.args.kwonlyargs or (m.args.vararg is not None and name != 'refresh'):
        fail(m, 'signature (expected %s)' % params)
    return m


def unique_iter():
    mod = ast.parse(open(os.path.join(REPO, SRC)).read())
    fs = [n for n in mod.body if isinstance(n, ast.FunctionDef) and n.name == 'unique_data_iter']
    if len(fs) != 1 or [a.arg for a in fs[0].args.args] != ['datasets']:
        raise Unsupported('%s: unique_data_iter' % SRC)
    st = [x for x in fs[0].body if not (isinstance(x, ast.Expr) and isinstance(x.value, ast.Constant))]
    ok = len(st) == 3 and ast.unparse(st[0]) == 'datasets_new = []' and isinstance(st[1], ast.For) and ast.unparse(st[1].iter) == 'datasets' \
        and is_name(st[1].target) and ast.unparse(st[2]) == 'return datasets_new' and len(st[1].body) == 1 and isinstance(st[1].body[0], ast.If)
    if not ok:
        fail(fs[0], 'unique_data_iter shape')
    v = st[1].target.id
    iff = st[1].body[0]
    if ast.unparse(iff.test) != 'isinstance(%s, BaseData)' % v:
        fail(iff, 'isinstance test')
    inner = iff.body
    if not (len(inner) == 1 and isinstance(inner[0], ast.If) and not inner[0].orelse and len(inner[0].body) == 1):
        fail(iff, 'inner if')
    t = inner[0].test
    if not (isinstance(t, ast.Compare) and len(t.ops) == 1 and isinstance(t.ops[0], (ast.In, ast.NotIn)) and is_name(t.left, v) and is_name(t.comparators[0], 'datasets_new')):
        fail(inner[0], 'membership test')
    cond = '(idmem %s datasets_new)' % vn(v)
    if isinstance(t.ops[0], ast.NotIn):
        cond = '(negb %s)' % cond
    if ast.unparse(inner[0].body[0]) != 'datasets_new.append(%s)' % v:
        fail(inner[0], 'append')
    return ('(* %s:%d-%d  unique_data_iter (datasets only: the Subset branch is not translated) *)\n'
            'Definition unique_data_iter (datasets : list Z) : list Z :=\nlet datasets_new := [] in\n'
            'let datasets_new := fold_left (fun datasets_new %s =>\nif %s then datasets_new ++ [%s] else datasets_new) datasets datasets_new in\ndatasets_new.\n'
            % (SRC, fs[0].lineno, fs[0].end_lineno, vn(v), cond, vn(v)))


def dtable(cls, dcattr, known_filters):
    m = one_method(cls, 'register_to_hub', ['hub'])
    entries = []
    for s in m.body:
        if isinstance(s, ast.Expr) and isinstance(s.value, ast.Constant):
            continue
        txt = ast.unparse(s)
        if txt == 'super(%s, self).register_to_hub(hub)' % cls.name:
            continue
        c = s.value if isinstance(s, ast.Expr) else None
        if not (isinstance(c, ast.Call) and ast.unparse(c.func) == 'hub.subscribe' and len(c.args) == 2 and is_name(c.args[0], 'self') and is_name(c.args[1])):
            fail(s, 'statement of register_to_hub')
        kw = {k.arg: k.value for k in c.keywords}
        hd, fl_ = kw.pop('handler', None), kw.pop('filter', None)
        if kw or hd is None or fl_ is None or not all(isinstance(x, ast.Attribute) and is_name(x.value, 'self') for x in (hd, fl_)):
            fail(s, 'subscribe arguments')
        if c.args[1].id not in ('DataUpdateMessage', 'DataCollectionAddMessage', 'DataCollectionDeleteMessage'):
            fail(s, 'message class')
        if fl_.attr not in known_filters or hd.attr not in ('_on_data_update', 'refresh', '_remove_data_msg'):
            fail(s, 'handler / filter')
        # what the handler reads must exist on the message class: _on_data_update reads msg.attribute (DataUpdateMessage only),
        # _remove_data_msg reads msg.data of a collection message
        if (hd.attr == '_on_data_update' and c.args[1].id != 'DataUpdateMessage') or \
                (hd.attr == '_remove_data_msg' and c.args[1].id != 'DataCollectionDeleteMessage'):
            fail(s, 'handler %s reads an attribute that a %s does not have' % (hd.attr, c.args[1].id))
        entries.append((c.args[1].id, hd.attr, fl_.attr))
    return m, entries


def generate_dpickers():
    out = [DPRE, unique_iter()]
    base = find_cls('BaseDataComboHelper')
    man = find_cls('ManualDataComboHelper')
    dcc = find_cls('DataCollectionComboHelper')
    bp = [n for n in base.body if isinstance(n, ast.FunctionDef) and n.name == 'register_to_hub']
    if len(bp) != 1 or not (len(bp[0].body) == 1 and isinstance(bp[0].body[0], ast.Pass)):
        raise Unsupported('%s: BaseDataComboHelper.register_to_hub is not `pass`' % SRC)
    m = one_method(base, 'refresh', [])
    out.append('(* %s:%d-%d  BaseDataComboHelper.refresh *)\nDefinition BaseDataComboHelper_refresh (self_ : dhelper) : dhelper :=\n%s.\n'
               % (SRC, m.lineno, m.end_lineno, dblock(list(m.body), {'self': 'dhelper'}, 'Base')))
    m = one_method(base, '_on_data_update', ['msg'])
    out.append('(* %s:%d-%d  BaseDataComboHelper._on_data_update *)\nDefinition BaseDataComboHelper__on_data_update (self_ : dhelper) (msg : dmsg) : dhelper :=\n%s.\n'
               % (SRC, m.lineno, m.end_lineno, dblock(list(m.body), {'self': 'dhelper', 'msg': 'dmsg'}, 'Base')))
    for name, params, sig, env in (
            ('append_data', ['data', 'refresh'], ' (data : Z) (refresh : bool)', {'data': 'id', 'refresh': 'bool'}),
            ('remove_data', ['data'], ' (data : Z)', {'data': 'id'}),
            ('set_multiple_data', ['datasets'], ' (datasets : list Z)', {'datasets': 'ids'}),
            ('_remove_data_msg', ['msg'], ' (msg : dmsg)', {'msg': 'dmsg'})):
        m = one_method(man, name, params)
        if name == 'append_data':
            d = m.args.defaults
            if not (len(d) == 1 and isinstance(d[0], ast.Constant) and d[0].value is True):
                fail(m, 'default of refresh')
        e = dict(env, self='dhelper')
        body = dblock(list(m.body), e, 'Manual')
        gname = 'ManualDataComboHelper_%s' % name
        DPROCS[('Manual', name)] = (gname, [(p, env[p]) for p in params])
        out.append('(* %s:%d-%d  ManualDataComboHelper.%s *)\nDefinition %s (self_ : dhelper)%s : dhelper :=\n%s.\n'
                   % (SRC, m.lineno, m.end_lineno, name, gname, sig, body))
    filters = []
    for cls, cname, names, dcattr in ((man, 'ManualDataComboHelper', ['_filter_msg', '_filter_msg_dc'], 'self._data_collection'),
                                      (dcc, 'DataCollectionComboHelper', ['_filter_msg_in', '_filter_msg_is'], 'self._datasets')):
        for name in names:
            m = one_method(cls, name, ['msg'])
            if len(m.body) != 1 or not isinstance(m.body[0], ast.Return):
                fail(m, 'filter form')
            v, t = dex(m.body[0].value, {'self': 'dhelper', 'msg': 'dmsg', '#dc': dcattr})
            if t != 'bool':
                fail(m, 'filter result')
            out.append('(* %s:%d-%d  %s.%s *)\nDefinition %s_%s (self_ : dhelper) (msg : dmsg) : bool :=\n%s.\n' % (SRC, m.lineno, m.end_lineno, cname, name, cname, name, v))
            filters.append((cname, name))
    # DataCollectionComboHelper.__init__: self._datasets = data_collection
    init = one_method(dcc, '__init__', ['state', 'selection_property', 'data_collection'])
    if 'self._datasets = data_collection' not in [ast.unparse(x) for x in init.body] or ast.unparse(init.body[-1]) != 'self.refresh()':
        fail(init, 'DataCollectionComboHelper.__init__ must set self._datasets = data_collection and end with self.refresh()')
    out.append('Inductive dclass : Type := D_DataUpdateMessage | D_DataCollectionAddMessage | D_DataCollectionDeleteMessage.\n'
               'Definition dclass_eqb (a b : dclass) : bool :=\n  match a, b with\n  | D_DataUpdateMessage, D_DataUpdateMessage => true\n'
               '  | D_DataCollectionAddMessage, D_DataCollectionAddMessage => true\n  | D_DataCollectionDeleteMessage, D_DataCollectionDeleteMessage => true\n  | _, _ => false\n  end.\n'
               'Inductive dhname : Type := DH__on_data_update | DH_refresh | DH__remove_data_msg.\n'
               'Inductive dfname : Type := DF_Manual__filter_msg | DF_Manual__filter_msg_dc | DF_DC__filter_msg_in | DF_DC__filter_msg_is.\n'
               'Fixpoint dput (e : dclass * dhname * dfname) (l : list (dclass * dhname * dfname)) :=\n'
               '  match l with [] => [e] | x :: r => if dclass_eqb (fst (fst x)) (fst (fst e)) then e :: r else x :: dput e r end.\n'
               'Definition run_dfilter (f : dfname) (self_ : dhelper) (m : dmsg) : bool :=\n  match f with\n'
               '  | DF_Manual__filter_msg => ManualDataComboHelper__filter_msg self_ m\n  | DF_Manual__filter_msg_dc => ManualDataComboHelper__filter_msg_dc self_ m\n'
               '  | DF_DC__filter_msg_in => DataCollectionComboHelper__filter_msg_in self_ m\n  | DF_DC__filter_msg_is => DataCollectionComboHelper__filter_msg_is self_ m\n  end.\n'
               'Definition run_dhandler (hd : dhname) (self_ : dhelper) (m : dmsg) : dhelper :=\n  match hd with\n'
               '  | DH__on_data_update => BaseDataComboHelper__on_data_update self_ m\n  | DH_refresh => BaseDataComboHelper_refresh self_\n'
               '  | DH__remove_data_msg => ManualDataComboHelper__remove_data_msg self_ m\n  end.\n')
    for cls, cname, short, known in ((man, 'ManualDataComboHelper', 'Manual', ['_filter_msg', '_filter_msg_dc']),
                                     (dcc, 'DataCollectionComboHelper', 'DC', ['_filter_msg_in', '_filter_msg_is'])):
        m, entries = dtable(cls, None, known)
        if cname == 'DataCollectionComboHelper' and any(hd == '_remove_data_msg' for _, hd, _ in entries):
            fail(m, 'DataCollectionComboHelper has no _remove_data_msg')
        out.append('(* %s:%d-%d  %s.register_to_hub *)\nDefinition %s_subscribe_calls : list (dclass * dhname * dfname) :=\n  [%s].\n'
                   'Definition %s_subscriptions := fold_left (fun l e => dput e l) %s_subscribe_calls [].\n'
                   'Definition %s_deliver (self_ : dhelper) (c : dclass) (m : dmsg) : dhelper :=\n'
                   '  match find (fun e => dclass_eqb (fst (fst e)) c) %s_subscriptions with\n  | None => self_\n'
                   '  | Some e => if run_dfilter (snd e) self_ m then run_dhandler (snd (fst e)) self_ m else self_\n  end.\n'
                   % (SRC, m.lineno, m.end_lineno, cname, cname,
                      '; '.join('(D_%s, DH_%s, DF_%s_%s)' % (c, hd, short, f) for c, hd, f in entries), cname, cname, cname, cname))
    return '\n'.join(out)


def find_class():
    mod = ast.parse(open(os.path.join(REPO, SRC)).read())
    cs = [n for n in mod.body if isinstance(n, ast.ClassDef) and n.name == CLS]
    if len(cs) != 1:
        raise Unsupported('%s: class %s not found exactly once' % (SRC, CLS))
    return cs[0]


def methods(cls, name):
    return [n for n in cls.body if isinstance(n, ast.FunctionDef) and n.name == name]


def generate():
    cls = find_class()
    parts = [PRE]
    # ---- flag properties
    for fl in FLAGS:
        ms = methods(cls, fl)
        get = [m for m in ms if any(is_name(d, 'property') for d in m.decorator_list)]
        st = [m for m in ms if any(ast.unparse(d) == '%s.setter' % fl for d in m.decorator_list)]
        if len(get) != 1 or len(st) != 1 or len(ms) != 2:
            raise Unsupported('%s: property %s is not one getter and one setter' % (SRC, fl))
        b = [x for x in get[0].body if not (isinstance(x, ast.Expr) and isinstance(x.value, ast.Constant))]
        if len(b) != 1 or ast.unparse(b[0]) != 'return self._%s' % fl:
            fail(get[0], 'getter is not `return self._%s`' % fl)
        if [a.arg for a in st[0].args.args] != ['self', 'value']:
            fail(st[0], 'setter signature')
        body = tr_proc(list(st[0].body), {'self': 'helper', 'value': 'bool'}, fl)
        parts.append('(* %s:%d-%d  %s.%s (setter) *)\nDefinition %s_set_%s (self_ : helper) (value : bool) : option helper :=\n%s.\n'
                     % (SRC, st[0].lineno, st[0].end_lineno, CLS, fl, CLS, fl, body))
    # ---- refresh
    fn = methods(cls, 'refresh')
    if len(fn) != 1 or [a.arg for a in fn[0].args.args] != ['self'] or fn[0].decorator_list:
        raise Unsupported('%s: %s.refresh signature' % (SRC, CLS))
    fn = fn[0]
    stmts = [s for s in fn.body if not (isinstance(s, ast.Expr) and isinstance(s.value, ast.Constant))]
    last = stmts[-1]
    if not (isinstance(last, ast.Assign) and ast.unparse(last.targets[0]) == 'self.choices' and is_name(last.value)):
        fail(last, 'refresh must end with self.choices = <local>')
    body = tr_locals(stmts[:-1], {'self': 'helper'}, vn(last.value.id))
    parts.append('(* %s:%d-%d  %s.refresh: the list handed to `self.choices = ..` *)\nDefinition %s_refresh (self_ : helper) : list gchoice :=\n%s.\n'
                 % (SRC, fn.lineno, fn.end_lineno, CLS, CLS, body))
    # ---- _filter_msg
    fm = methods(cls, '_filter_msg')
    if len(fm) != 1 or [a.arg for a in fm[0].args.args] != ['self', 'msg'] or len(fm[0].body) != 1 or not isinstance(fm[0].body[0], ast.Return):
        raise Unsupported('%s: %s._filter_msg form' % (SRC, CLS))
    v, t = ex(fm[0].body[0].value, {'self': 'helper', 'msg': 'msg'})
    if t != 'bool':
        fail(fm[0], 'filter result')
    parts.append('Definition msg_data (m : Z) : Z := m.\n(* %s:%d-%d  %s._filter_msg *)\nDefinition %s__filter_msg (self_ : helper) (msg : Z) : bool :=\n%s.\n'
                 % (SRC, fm[0].lineno, fm[0].end_lineno, CLS, CLS, v))
    # ---- remove_data, _remove_data, clear
    for name, params in (('remove_data', ['data']), ('_remove_data', ['msg']), ('clear', [])):
        m = methods(cls, name)
        if len(m) != 1 or [a.arg for a in m[0].args.args] != ['self'] + params or m[0].decorator_list:
            raise Unsupported('%s: %s.%s signature' % (SRC, CLS, name))
        env = {'self': 'helper'}
        sig = ''
        if params == ['data']:
            env['data'] = 'dataref'
            sig = ' (data : Z)'
        elif params == ['msg']:
            env['msg'] = 'msg'
            sig = ' (msg : Z)'
        body = tr_proc(list(m[0].body), env)
        parts.append('(* %s:%d-%d  %s.%s : None = the exception of the single-dataset guard *)\nDefinition %s_%s (self_ : helper)%s : option helper :=\n%s.\n'
                     % (SRC, m[0].lineno, m[0].end_lineno, CLS, name, CLS, name, sig, body))
    # ---- register_to_hub
    rh = methods(cls, 'register_to_hub')
    if len(rh) != 1 or [a.arg for a in rh[0].args.args] != ['self', 'hub']:
        raise Unsupported('%s: %s.register_to_hub signature' % (SRC, CLS))
    entries = []

    def sub(s, cond):
        c = s.value if isinstance(s, ast.Expr) else None
        if not (isinstance(c, ast.Call) and ast.unparse(c.func) == 'hub.subscribe' and len(c.args) == 2 and is_name(c.args[0], 'self') and is_name(c.args[1])):
            fail(s, 'statement of register_to_hub')
        kw = {k.arg: k.value for k in c.keywords}
        hd = kw.pop('handler', None)
        fl_ = kw.pop('filter', None)
        if kw or hd is None or not (isinstance(hd, ast.Attribute) and is_name(hd.value, 'self')):
            fail(s, 'subscribe arguments')
        if fl_ is not None and ast.unparse(fl_) != 'self._filter_msg':
            fail(s, 'filter')
        if hd.attr not in ('_on_rename', 'refresh', '_remove_data'):
            fail(s, 'handler %s' % hd.attr)
        entries.append((c.args[1].id, hd.attr, fl_ is not None, cond))
    for s in rh[0].body:
        if isinstance(s, ast.Expr) and isinstance(s.value, ast.Constant):
            continue
        if isinstance(s, ast.If):
            cv, ct = ex(s.test, {'self': 'helper'})
            if ct != 'bool' or s.orelse:
                fail(s, 'conditional subscription')
            for x in s.body:
                sub(x, cv)
        else:
            sub(s, 'true')
    classes = list(KNOWN_MSGS)
    for c, _, _, _ in entries:
        if c not in classes:
            classes.append(c)
    t = ['(* %s:%d-%d  %s.register_to_hub *)' % (SRC, rh[0].lineno, rh[0].end_lineno, CLS)]
    t.append('Inductive mclass : Type := %s.' % ' | '.join('C_' + c for c in classes))
    t.append('Definition mclass_eqb (a b : mclass) : bool :=\n  match a, b with\n%s  | _, _ => false\n  end.' % ''.join('  | C_%s, C_%s => true\n' % (c, c) for c in classes))
    t.append('Inductive hname : Type := H__on_rename | H_refresh | H__remove_data.')
    t.append('(* (class, handler, has the filter _filter_msg) ; a later subscription of the same class replaces the entry *)')
    t.append('Fixpoint put_entry (e : mclass * hname * bool) (l : list (mclass * hname * bool)) :=\n'
             '  match l with [] => [e] | x :: r => if mclass_eqb (fst (fst x)) (fst (fst e)) then e :: r else x :: put_entry e r end.')
    t.append('Definition subscribe_calls (self_ : helper) : list (mclass * hname * bool) :=\n  %s.' % ' ++\n  '.join(
        '(if %s then [(C_%s, H_%s, %s)] else [])' % (cond, c, hd, 'true' if f else 'false') for c, hd, f, cond in entries))
    t.append('Definition subscriptions (self_ : helper) : list (mclass * hname * bool) := fold_left (fun l e => put_entry e l) (subscribe_calls self_) [].')
    t.append('(* what the hub does with a message of class c about dataset d: None = not subscribed or filtered out *)\n'
             'Definition dispatch (self_ : helper) (c : mclass) (d : Z) : option hname :=\n'
             '  match find (fun e => mclass_eqb (fst (fst e)) c) (subscriptions self_) with\n'
             '  | None => None\n'
             '  | Some e => if snd e then (if %s__filter_msg self_ d then Some (snd (fst e)) else None) else Some (snd (fst e))\n'
             '  end.\n' % CLS)
    parts.append('\n'.join(t))
    parts.append(generate_dpickers())
    text = '\n'.join(parts)
    os.makedirs(os.path.dirname(OUT), exist_ok=True)
    if not os.path.exists(OUT) or open(OUT).read() != text:
        open(OUT, 'w').write(text)


if __name__ == '__main__':
    try:
        generate()
    except Unsupported as e:
        print('TRANSLATION-FAILED: %s' % e)
        sys.exit(3)
    print('ok', OUT)
