#!/usr/bin/env python3
"""
Regenerate coq/gen/Gen_combine.v from the *current* source of glue (ast only, nothing is imported): the public entry points
that BUILD selections out of other selections, translated statement by statement.  Fail-closed: anything outside the
small language below aborts with TRANSLATION-FAILED (exit 3).

  glue/core/subset.py
    SubsetState.__and__/__or__/__xor__/__invert__     state_and / state_or / state_xor / state_invert
    combine_multiple(subsets, operator)               combine_multiple       (option: None = IndexError)
    _combine(subsets, operator)                       subset_combine         (option: None = TypeError, wrong number of operands)
    Subset.__and__/__or__/__xor__/__invert__          Subset_and / ...
  glue/core/subset_group.py
    SubsetGroup.__and__/__or__/__xor__/__invert__     Group_and / ...
  glue/core/edit_subset_mode.py
    NewMode ReplaceMode AndMode OrMode XorMode AndNotMode      (the state assigned to edit_subset.subset_state)
    EditSubsetMode._combine_data                      combine_data           (new group with a copy | the mode applied to every edit subset)

The generated file is a Section over an abstract type S of state objects with the constructors of the composite classes
(AndState OrState XorState InvertState), SubsetState() and .copy() as variables; coq/C01/Model.v instantiates it twice
(expressions; computations that allocate identified objects) and coq/C01/Lemmas3.v proves both instances equal to the model.

Language
  expressions   names of parameters / locals; X.subset_state of a holder (a Subset / SubsetGroup / the edit subset is identified
                with the state it holds; for a state, `.subset_state` is the state itself -- SubsetState.subset_state, checked);
                a & b, a | b, a ^ b, ~a on states -> state_and/or/xor/invert (valid because NO class of the SubsetState family
                other than the base defines __and__/__or__/__xor__/__invert__: checked on every run);
                X.copy(); AndState(a, b) OrState(a, b) XorState(a, b) InvertState(a); SubsetState();
                operator(a, b) for a function parameter; len(x) == N; x[N]; x[N:]; [a, b]; operator.and_/or_/xor/invert
  statements    docstrings and logging...debug(...) are skipped; `new_state.parent = edit_subset` is bookkeeping (skipped, see
                ASSUMPTIONS of the harness); x = e; for v in seq: acc = e; if len(x) == N: ... else: ...; return e;
                edit_subset.subset_state = e (last statement of a mode)
  every local that holds a NEWLY BUILT state is read exactly once (object identity: a value is never duplicated)
  decorators    @contract(...) are run-time type checks only (ignored)
"""
import ast
import os
import sys

HERE = os.path.dirname(os.path.abspath(__file__))
sys.path.insert(0, HERE)
REPO = os.environ.get('GLUE_REPO', '/repo')
OUT = os.path.join(os.path.dirname(os.path.dirname(HERE)), 'coq/gen/Gen_combine.v')


class Unsupported(Exception):
    pass


def fail(node, why):
    raise Unsupported('line %s: %s: %s' % (getattr(node, 'lineno', '?'), why, ast.unparse(node)[:200] if isinstance(node, ast.AST) else node))


def src(n):
    return ast.unparse(n)


COMPOSITES = {'AndState': 2, 'OrState': 2, 'XorState': 2, 'InvertState': 1}
BITOPS = {ast.BitAnd: 'state_and', ast.BitOr: 'state_or', ast.BitXor: 'state_xor'}
PYOPS = {'and_': 'op_and', 'or_': 'op_or', 'xor': 'op_xor', 'invert': 'op_invert'}
DUNDER = {'__and__': 'and', '__or__': 'or', '__xor__': 'xor', '__invert__': 'invert'}


def body_of(fn):
    """statements of a function without docstring and logging calls"""
    out = []
    for st in fn.body:
        if isinstance(st, ast.Expr) and isinstance(st.value, ast.Constant) and isinstance(st.value.value, str):
            continue
        if isinstance(st, ast.Expr) and isinstance(st.value, ast.Call) and src(st.value.func) == 'logging.getLogger(__name__).debug':
            for a in st.value.args:
                if not isinstance(a, (ast.Constant, ast.Name)):
                    fail(st, 'logging call with a computed argument')
            continue
        out.append(st)
    return out


def check_decorators(fn):
    for d in fn.decorator_list:
        if not (isinstance(d, ast.Call) and src(d.func) == 'contract'):
            fail(fn, 'decorator other than @contract on %s' % fn.name)


class Tr:
    """expression / statement translator; env: python name -> gallina name (state values); holders: python name -> gallina name of
    the state the holder object holds; lists: python name -> gallina name (list of states); funcs: binary function parameters"""

    def __init__(self, env=None, holders=None, lists=None, funcs=None):
        self.env = dict(env or {})
        self.holders = dict(holders or {})
        self.lists = dict(lists or {})
        self.funcs = dict(funcs or {})
        self.fresh = {}       # locals holding a newly built state -> number of reads

    def read(self, name):
        if name in self.fresh:
            self.fresh[name] += 1
            if self.fresh[name] > 1:
                raise Unsupported('local %s (a newly built state) is read twice' % name)

    def ex(self, e):
        if isinstance(e, ast.Name):
            if e.id in self.env:
                self.read(e.id)
                return self.env[e.id]
            fail(e, 'unknown name')
        if isinstance(e, ast.Attribute) and e.attr == 'subset_state' and isinstance(e.value, ast.Name) and e.value.id in self.holders:
            return self.holders[e.value.id]
        if isinstance(e, ast.BinOp) and type(e.op) in BITOPS:
            return '(%s %s %s)' % (BITOPS[type(e.op)], self.ex(e.left), self.ex(e.right))
        if isinstance(e, ast.UnaryOp) and isinstance(e.op, ast.Invert):
            return '(state_invert %s)' % self.ex(e.operand)
        if isinstance(e, ast.Call) and not e.keywords:
            f = e.func
            if isinstance(f, ast.Attribute) and f.attr == 'copy' and not e.args:
                return '(copy %s)' % self.ex(f.value)
            if isinstance(f, ast.Name) and f.id in COMPOSITES:
                if len(e.args) != COMPOSITES[f.id] or any(isinstance(a, ast.Starred) for a in e.args):
                    fail(e, 'arity of %s' % f.id)
                return '(%s %s)' % (f.id, ' '.join(self.ex(a) for a in e.args))
            if isinstance(f, ast.Name) and f.id == 'SubsetState' and not e.args:
                return 'SubsetState_new'
            if isinstance(f, ast.Name) and f.id in self.funcs and len(e.args) == 2 and not any(isinstance(a, ast.Starred) for a in e.args):
                return '(%s %s %s)' % (self.funcs[f.id], self.ex(e.args[0]), self.ex(e.args[1]))
        fail(e, 'expression')

    def lst(self, e):
        if isinstance(e, ast.Name) and e.id in self.lists:
            return self.lists[e.id]
        if isinstance(e, ast.Subscript) and isinstance(e.slice, ast.Slice) and e.slice.upper is None and e.slice.step is None \
                and isinstance(e.slice.lower, ast.Constant) and isinstance(e.slice.lower.value, int) and e.slice.lower.value >= 0:
            return '(skipn %d %s)' % (e.slice.lower.value, self.lst(e.value))
        if isinstance(e, ast.List):
            return '[%s]' % '; '.join(self.ex(x) for x in e.elts)
        fail(e, 'list expression')

    def cond(self, e):
        if isinstance(e, ast.Compare) and len(e.ops) == 1 and isinstance(e.ops[0], ast.Eq) and isinstance(e.left, ast.Call) \
                and src(e.left.func) == 'len' and len(e.left.args) == 1 and isinstance(e.comparators[0], ast.Constant) \
                and isinstance(e.comparators[0].value, int) and e.comparators[0].value >= 0:
            return '(Nat.eqb (length %s) %d)' % (self.lst(e.left.args[0]), e.comparators[0].value)
        fail(e, 'condition')

    def block(self, stmts):
        """option-valued term: Some of the returned state, None = IndexError"""
        if not stmts:
            raise Unsupported('function may fall off the end')
        st = stmts[0]
        rest = stmts[1:]
        if isinstance(st, ast.Return):
            if rest:
                fail(rest[0], 'code after return')
            if st.value is None:
                fail(st, 'bare return')
            return 'Some %s' % self.ex(st.value)
        if isinstance(st, ast.If):
            c = self.cond(st.test)
            saved = (dict(self.env), dict(self.fresh))
            a = self.block(list(st.body) + ([] if self.terminal(st.body) else rest))
            self.env, self.fresh = dict(saved[0]), dict(saved[1])
            if st.orelse:
                b = self.block(list(st.orelse) + ([] if self.terminal(st.orelse) else rest))
            else:
                b = self.block(rest)
            if self.terminal(st.body) and st.orelse and self.terminal(st.orelse) and rest:
                fail(rest[0], 'unreachable code')
            return 'if %s then %s\n    else %s' % (c, a, b)
        if isinstance(st, ast.Assign) and len(st.targets) == 1 and isinstance(st.targets[0], ast.Name):
            name = st.targets[0].id
            v = st.value
            if isinstance(v, ast.Subscript) and not isinstance(v.slice, ast.Slice):
                if not (isinstance(v.slice, ast.Constant) and isinstance(v.slice.value, int) and v.slice.value >= 0):
                    fail(st, 'index')
                l = self.lst(v.value)
                self.env[name] = name
                self.fresh.pop(name, None)       # an element of the list: an existing object
                return 'match nth_error %s %d with\n      | None => None\n      | Some %s =>\n        %s\n      end' % (l, v.slice.value, name, self.block(rest))
            val = self.ex(v)
            self.env[name] = name
            self.fresh[name] = 0
            return 'let %s := %s in\n        %s' % (name, val, self.block(rest))
        if isinstance(st, ast.For) and not st.orelse and isinstance(st.target, ast.Name) and len(st.body) == 1:
            b = st.body[0]
            if not (isinstance(b, ast.Assign) and len(b.targets) == 1 and isinstance(b.targets[0], ast.Name) and b.targets[0].id in self.env):
                fail(st, 'loop body must be `acc = e`')
            acc = b.targets[0].id
            seq = self.lst(st.iter)
            inner = Tr(dict(self.env), self.holders, self.lists, self.funcs)
            inner.env[st.target.id] = st.target.id
            inner.fresh = {acc: 0}
            body = inner.ex(b.value)
            if inner.fresh[acc] != 1:
                fail(st, 'the accumulator must be read exactly once per iteration')
            self.fresh[acc] = 0
            return 'let %s := fold_left (fun %s %s => %s) %s %s in\n        %s' % (acc, acc, st.target.id, body, seq, self.env[acc], self.block(rest))
        fail(st, 'statement')

    @staticmethod
    def terminal(stmts):
        return bool(stmts) and isinstance(stmts[-1], ast.Return)


def find_fn(container, name):
    fns = [n for n in container.body if isinstance(n, ast.FunctionDef) and n.name == name]
    if len(fns) != 1:
        raise Unsupported('%s not found exactly once' % name)
    check_decorators(fns[0])
    return fns[0]


def find_cls(mod, name):
    cs = [n for n in mod.body if isinstance(n, ast.ClassDef) and n.name == name]
    if len(cs) != 1:
        raise Unsupported('class %s not found exactly once' % name)
    return cs[0]


def argnames(fn):
    a = fn.args
    if a.vararg or a.kwarg or a.kwonlyargs or a.posonlyargs:
        fail(fn, 'argument list')
    return [x.arg for x in a.args], len(a.defaults)


def generate():
    import gen_memo
    gen_memo.REPO = REPO
    try:
        fam, _ = gen_memo.scan()
    except gen_memo.Unsupported as e:
        raise Unsupported('class scan: %s' % e)
    # `a & b` on states is SubsetState.__and__ only if nothing in the family overrides the operators
    for cname, info in sorted(fam.items()):
        for n in info['node'].body:
            if isinstance(n, ast.FunctionDef) and n.name in list(DUNDER) + ['__rand__', '__ror__', '__rxor__', '__iand__', '__ior__', '__ixor__'] \
                    and (cname != 'SubsetState' or n.name not in DUNDER):
                raise Unsupported('%s.%s overrides a Boolean operator of SubsetState (%s:%d): `a & b` is no longer SubsetState.__and__ for every state'
                                  % (cname, n.name, info['module'], n.lineno))
    sub = ast.parse(open(os.path.join(REPO, 'glue/core/subset.py')).read())
    grp = ast.parse(open(os.path.join(REPO, 'glue/core/subset_group.py')).read())
    esm = ast.parse(open(os.path.join(REPO, 'glue/core/edit_subset_mode.py')).read())
    t = []
    t.append('(* REGENERATED by tools/gen/gen_combine.py from glue/core/subset.py, subset_group.py, edit_subset_mode.py -- do not edit.')
    t.append('   The public entry points that build selections out of selections, translated from the source. *)')
    t.append('From Coq Require Import List Bool Arith.')
    t.append('Import ListNotations.')
    t.append('')
    t.append('(* the primitives: SubsetState(), the constructors of the composite classes, state.copy() *)')
    t.append('Record prims (S : Type) : Type := mkprims {')
    t.append('  p_new : S; p_and : S -> S -> S; p_or : S -> S -> S; p_xor : S -> S -> S; p_invert : S -> S; p_copy : S -> S }.')
    t.append('Inductive pyop := op_and | op_or | op_xor | op_invert.     (* operator.and_ / or_ / xor / invert *)')
    t.append('')
    t.append('Section Combine.')
    t.append('  Variable S : Type.                              (* state objects *)')
    t.append('  Variable P : prims S.')
    t.append('  Local Notation SubsetState_new := (p_new S P).')
    t.append('  Local Notation AndState := (p_and S P).')
    t.append('  Local Notation OrState := (p_or S P).')
    t.append('  Local Notation XorState := (p_xor S P).')
    t.append('  Local Notation InvertState := (p_invert S P).')
    t.append('  Local Notation copy := (p_copy S P).')
    t.append('')
    # ---- SubsetState operators
    st_cls = find_cls(sub, 'SubsetState')
    for dn, short in DUNDER.items():
        fn = find_fn(st_cls, dn)
        args, nd = argnames(fn)
        want = 1 if short == 'invert' else 2
        if len(args) != want or nd or args[0] != 'self':
            fail(fn, 'signature of SubsetState.%s' % dn)
        tr = Tr(env={a: a for a in args})
        body = body_of(fn)
        if len(body) != 1 or not isinstance(body[0], ast.Return):
            fail(fn, 'SubsetState.%s must be a single return' % dn)
        t.append('  (* SubsetState.%s  (glue/core/subset.py:%d) *)' % (dn, fn.lineno))
        t.append('  Definition state_%s %s : S := %s.' % (short, ' '.join('(%s : S)' % a for a in args), tr.ex(body[0].value)))
    # SubsetState.subset_state is the state itself
    props = [n for n in st_cls.body if isinstance(n, ast.FunctionDef) and n.name == 'subset_state']
    if len(props) != 1 or [src(d) for d in props[0].decorator_list] != ['property'] or \
            [src(x) for x in body_of(props[0])] != ['return self']:
        raise Unsupported('SubsetState.subset_state is not the property `return self`')
    t.append('')
    t.append('  (* operator.and_ / or_ / xor / invert applied to an argument list: a & b is type(a).__and__(a, b); None = TypeError *)')
    t.append('  Definition apply_op (o : pyop) (args : list S) : option S :=')
    t.append('    match o, args with')
    t.append('    | op_and, [a; b] => Some (state_and a b)')
    t.append('    | op_or, [a; b] => Some (state_or a b)')
    t.append('    | op_xor, [a; b] => Some (state_xor a b)')
    t.append('    | op_invert, [a] => Some (state_invert a)')
    t.append('    | _, _ => None')
    t.append('    end.')
    t.append('')
    # ---- combine_multiple
    fn = find_fn(sub, 'combine_multiple')
    args, nd = argnames(fn)
    if args != ['subsets', 'operator'] or nd:
        fail(fn, 'signature of combine_multiple')
    tr = Tr(lists={'subsets': 'subsets'}, funcs={'operator': 'operator'})
    term = tr.block(body_of(fn))
    t.append('  (* combine_multiple  (glue/core/subset.py:%d); None = IndexError *)' % fn.lineno)
    t.append('  Definition combine_multiple (subsets : list S) (operator : S -> S -> S) : option S :=\n    %s.' % term)
    t.append('')
    # ---- _combine
    fn = find_fn(sub, '_combine')
    args, nd = argnames(fn)
    want = ['state = operator(*[s.subset_state for s in subsets])', 'result = Subset(None)', 'result.subset_state = state', 'return result']
    if args != ['subsets', 'operator'] or nd or [src(x) for x in body_of(fn)] != want:
        fail(fn, '_combine is not `%s`' % '; '.join(want))
    # the setter of Subset.subset_state stores a SubsetState as it is
    s_cls = find_cls(sub, 'Subset')
    setters = [n for n in s_cls.body if isinstance(n, ast.FunctionDef) and n.name == 'subset_state' and 'subset_state.setter' in [src(d) for d in n.decorator_list]]
    getters = [n for n in s_cls.body if isinstance(n, ast.FunctionDef) and n.name == 'subset_state' and 'property' in [src(d) for d in n.decorator_list]]
    if len(setters) != 1 or len(getters) != 1 or [src(x) for x in body_of(getters[0])] != ['return self._subset_state']:
        raise Unsupported('Subset.subset_state property not understood')
    sb = body_of(setters[0])
    if not sb or src(sb[-1]) != 'self._subset_state = state' or any(not isinstance(x, ast.If) for x in sb[:-1]):
        raise Unsupported('Subset.subset_state setter does not end in `self._subset_state = state`')
    for x in sb[:-1]:
        tst = src(x.test)
        if tst == 'isinstance(state, np.ndarray)':
            continue        # arrays become MaskSubsetStates: not a state operand
        if tst == 'not isinstance(state, SubsetState)' and len(x.body) == 1 and isinstance(x.body[0], ast.Raise) and not x.orelse:
            continue
        fail(x, 'Subset.subset_state setter')
    t.append('  (* _combine  (glue/core/subset.py:%d): a Subset is identified with the state it holds (its setter stores a state as it is);' % fn.lineno)
    t.append('     the result is a new Subset holding the operator applied to these states; None = TypeError *)')
    t.append('  Definition subset_combine (subsets : list S) (operator : pyop) : option S :=')
    t.append('    apply_op operator (map (fun s => s) subsets).')
    t.append('')
    # ---- Subset operators
    for dn, short in DUNDER.items():
        fn = find_fn(s_cls, dn)
        args, nd = argnames(fn)
        body = body_of(fn)
        if nd or args[:1] != ['self'] or len(body) != 1 or not isinstance(body[0], ast.Return):
            fail(fn, 'Subset.%s' % dn)
        c = body[0].value
        if not (isinstance(c, ast.Call) and src(c.func) == '_combine' and len(c.args) == 2 and not c.keywords and isinstance(c.args[0], ast.List)
                and all(isinstance(x, ast.Name) and x.id in args for x in c.args[0].elts)
                and isinstance(c.args[1], ast.Attribute) and src(c.args[1].value) == 'operator' and c.args[1].attr in PYOPS):
            fail(fn, 'Subset.%s is not `return _combine([...], operator.<op>)`' % dn)
        t.append('  (* Subset.%s  (glue/core/subset.py:%d) *)' % (dn, fn.lineno))
        t.append('  Definition Subset_%s %s : option S := subset_combine [%s] %s.' % (
            short, ' '.join('(%s : S)' % a for a in args), '; '.join(x.id for x in c.args[0].elts), PYOPS[c.args[1].attr]))
    t.append('')
    # ---- SubsetGroup operators
    g_cls = find_cls(grp, 'SubsetGroup')
    for dn, short in DUNDER.items():
        fn = find_fn(g_cls, dn)
        args, nd = argnames(fn)
        body = body_of(fn)
        if nd or args[:1] != ['self'] or len(body) != 1 or not isinstance(body[0], ast.Return):
            fail(fn, 'SubsetGroup.%s' % dn)
        tr = Tr(holders={a: a for a in args})
        t.append('  (* SubsetGroup.%s  (glue/core/subset_group.py:%d); the operands are groups (or states), identified with the state they hold *)' % (dn, fn.lineno))
        t.append('  Definition Group_%s %s : S := %s.' % (short, ' '.join('(%s : S)' % a for a in args), tr.ex(body[0].value)))
    t.append('')
    # ---- edit modes
    for mname in ('NewMode', 'ReplaceMode', 'AndMode', 'OrMode', 'XorMode', 'AndNotMode'):
        fn = find_fn(esm, mname)
        args, nd = argnames(fn)
        if args != ['edit_subset', 'new_state'] or nd:
            fail(fn, 'signature of %s' % mname)
        body = [x for x in body_of(fn) if src(x) != 'new_state.parent = edit_subset']
        if not body or not (isinstance(body[-1], ast.Assign) and [src(x) for x in body[-1].targets] == ['edit_subset.subset_state']):
            fail(fn, '%s must end in `edit_subset.subset_state = ...`' % mname)
        tr = Tr(env={'new_state': 'new_state'}, holders={'edit_subset': 'edit_subset_state'})
        lets = ''
        for x in body[:-1]:
            if not (isinstance(x, ast.Assign) and len(x.targets) == 1 and isinstance(x.targets[0], ast.Name)):
                fail(x, 'statement of %s' % mname)
            nme = x.targets[0].id
            val = tr.ex(x.value)
            tr.env[nme] = nme
            tr.fresh[nme] = 0
            lets += 'let %s := %s in ' % (nme, val)
        t.append('  (* %s  (glue/core/edit_subset_mode.py:%d): the new state of the edit subset *)' % (mname, fn.lineno))
        t.append('  Definition %s (edit_subset_state new_state : S) : S := %s%s.' % (mname, lets, tr.ex(body[-1].value)))
    t.append('')
    # ---- EditSubsetMode._combine_data
    e_cls = find_cls(esm, 'EditSubsetMode')
    fn = find_fn(e_cls, '_combine_data')
    want = ['mode = override_mode or self.mode',
            'if not self._edit_subset or mode is NewMode:\n'
            '    if self.data_collection is None:\n'
            "        raise RuntimeError('Must set data_collection before calling update')\n"
            '    self.edit_subset = [self.data_collection.new_subset_group(subset_state=new_state.copy())]\n'
            '    return',
            'subs = self._edit_subset',
            'for s in as_list(subs):\n    mode(s, new_state)']
    got = [src(x) for x in body_of(fn)]
    if got != want:
        raise Unsupported('EditSubsetMode._combine_data changed: %r' % (got,))
    t.append('  (* EditSubsetMode._combine_data  (glue/core/edit_subset_mode.py:%d): no edit subset, or NewMode -> ONE new group holding' % fn.lineno)
    t.append('     new_state.copy(); otherwise the mode is applied to every edit subset.  The list of states of the edit subsets afterwards. *)')
    t.append('  Definition combine_data (edit_subsets : list S) (mode_is_NewMode : bool) (mode : S -> S -> S) (new_state : S) : list S :=')
    t.append('    if (Nat.eqb (length edit_subsets) 0) || mode_is_NewMode then [copy new_state]')
    t.append('    else map (fun s => mode s new_state) edit_subsets.')
    t.append('End Combine.')
    text = '\n'.join(t) + '\n'
    if not os.path.exists(OUT) or open(OUT).read() != text:
        tmp = OUT + '.tmp'
        with open(tmp, 'w') as f:
            f.write(text)
        os.replace(tmp, OUT)


if __name__ == '__main__':
    try:
        generate()
    except Unsupported as e:
        print('TRANSLATION-FAILED: %s' % e)
        sys.exit(3)
    print('ok', OUT)
