#!/usr/bin/env python3
"""
Regenerate coq/gen/Gen_joins.v from /repo's current source: the *skeleton* of key joins, translated statement by statement.

  glue/core/joins.py         get_mask_with_key_joins : the loop over key_joins, the `_recursing` skip / set / restore protocol,
                             try / except IncompatibleAttribute: continue / finally, the dispatch on len(cid1), len(cid2), which
                             branch fetches which key columns through which view and combines them by which operation, the
                             final raises.  numpy kernels are named opaque operations (Section variables):
                               fetch X V c           X.get_data(c, view=V)[.ravel()]   (X = data | other, V = VView (the caller's view) | VMask mask_right)
                               K_isin_by_value a b   isin_by_value(a, b)
                               K_zeros_like a        np.zeros_like(a, dtype=bool)
                               K_or m1 m2            m1 |= m2
                               K_nn_isin m pairs     the n-n block (promote_types / asarray / + 0. / concatenate_arrays / np.isin);
                                                     its text is compared with the template NN_BLOCK below
                             `mask.reshape(<left array>.shape)` is the identity on the flat model (the argument must be a left array).
  glue/core/data.py          Data.join_on_key : the shape check and the registration of both directions
  glue/core/link_manager.py  LinkManager.add_link / remove_link, JoinLink branch: WHICH datasets and ComponentIDs of the link are used
                             (link.data1, link.data2, link.cids1[0], link.cids2[0], <cid>.parent are distinct terms)

Fail-closed: any statement or expression outside the forms handled below aborts with TRANSLATION-FAILED (exit 3).
"""
import ast
import os
import sys

REPO = os.environ.get('GLUE_REPO', '/repo')
HERE = os.path.dirname(os.path.abspath(__file__))
OUT = os.path.join(os.path.dirname(os.path.dirname(HERE)), 'coq/gen/Gen_joins.v')


class Unsupported(Exception):
    pass


def fail(node, why):
    raise Unsupported('line %s: %s: %s' % (getattr(node, 'lineno', '?'), why, ast.unparse(node)[:160] if isinstance(node, ast.AST) else node))


def is_doc(s):
    return isinstance(s, ast.Expr) and isinstance(s.value, ast.Constant) and isinstance(s.value.value, str)


def find_fn(mod, name, cls=None):
    body = mod.body
    if cls is not None:
        cs = [n for n in mod.body if isinstance(n, ast.ClassDef) and n.name == cls]
        if len(cs) != 1:
            raise Unsupported('class %s not found exactly once' % cls)
        body = cs[0].body
    fs = [n for n in body if isinstance(n, ast.FunctionDef) and n.name == name]
    if len(fs) != 1:
        raise Unsupported('%s.%s not found exactly once' % (cls or 'module', name))
    return fs[0]


# ------------------------------------------------------------------ conditions on len(...)
CMP = {ast.Eq: '=?', ast.Lt: '<?', ast.LtE: '<=?', ast.Gt: '>?', ast.GtE: '>=?'}


def tr_len_term(e, names):
    if isinstance(e, ast.Constant) and isinstance(e.value, int) and not isinstance(e.value, bool):
        return '%d' % e.value
    if isinstance(e, ast.Call) and isinstance(e.func, ast.Name) and e.func.id == 'len' and len(e.args) == 1 and not e.keywords \
            and isinstance(e.args[0], ast.Name) and e.args[0].id in names:
        return 'zlen %s' % e.args[0].id
    fail(e, 'term of a length condition')


def tr_len_cond(e, names):
    if isinstance(e, ast.BoolOp):
        op = ' && ' if isinstance(e.op, ast.And) else ' || '
        return '(' + op.join(tr_len_cond(v, names) for v in e.values) + ')'
    if isinstance(e, ast.UnaryOp) and isinstance(e.op, ast.Not):
        return '(negb %s)' % tr_len_cond(e.operand, names)
    if isinstance(e, ast.Compare) and len(e.ops) == 1:
        a, b = tr_len_term(e.left, names), tr_len_term(e.comparators[0], names)
        if type(e.ops[0]) in CMP:
            return '(%s %s %s)' % (a, CMP[type(e.ops[0])], b)
        if isinstance(e.ops[0], ast.NotEq):
            return '(negb (%s =? %s))' % (a, b)
    fail(e, 'length condition')


# ------------------------------------------------------------------ get_mask_with_key_joins
def flag_target(e):
    """X._recursing -> X"""
    if isinstance(e, ast.Attribute) and e.attr == '_recursing' and isinstance(e.value, ast.Name) and e.value.id in ('data', 'other'):
        return e.value.id
    return None


def flag_read(e):
    """getattr(X, '_recursing', False) -> X"""
    if isinstance(e, ast.Call) and isinstance(e.func, ast.Name) and e.func.id == 'getattr' and len(e.args) == 3 and not e.keywords \
            and isinstance(e.args[0], ast.Name) and e.args[0].id in ('data', 'other') \
            and isinstance(e.args[1], ast.Constant) and e.args[1].value == '_recursing' \
            and isinstance(e.args[2], ast.Constant) and e.args[2].value is False:
        return e.args[0].id
    return None


def flag_assign(s, bools):
    """X._recursing = True | False | <bool local>  ->  Gallina let, or None"""
    if isinstance(s, ast.Assign) and len(s.targets) == 1 and flag_target(s.targets[0]):
        v = s.value
        if isinstance(v, ast.Constant) and v.value in (True, False) and isinstance(v.value, bool):
            val = 'true' if v.value else 'false'
        elif isinstance(v, ast.Name) and v.id in bools:
            val = v.id
        else:
            fail(s, 'value stored in _recursing')
        return 'let flags := flag_set %s %s flags in' % (flag_target(s.targets[0]), val)
    return None


def tr_cid(e, loopvars):
    if isinstance(e, ast.Name) and e.id in loopvars:
        return e.id
    if isinstance(e, ast.Subscript) and isinstance(e.value, ast.Name) and e.value.id in ('cid1', 'cid2') \
            and isinstance(e.slice, ast.Constant) and isinstance(e.slice.value, int) and not isinstance(e.slice.value, bool) and e.slice.value >= 0:
        return '(nth %d %s 0%%nat)' % (e.slice.value, e.value.id)
    fail(e, 'component id expression')


def tr_fetch(e, loopvars):
    """data.get_data(C, view=view) / other.get_data(C, view=mask_right), optionally .ravel()  ->  (term, side, raveled)"""
    rav = False
    if isinstance(e, ast.Call) and isinstance(e.func, ast.Attribute) and e.func.attr == 'ravel' and not e.args and not e.keywords:
        e, rav = e.func.value, True
    if isinstance(e, ast.Call) and isinstance(e.func, ast.Attribute) and e.func.attr == 'get_data' and isinstance(e.func.value, ast.Name) \
            and len(e.args) == 1 and len(e.keywords) == 1 and e.keywords[0].arg == 'view' and isinstance(e.keywords[0].value, ast.Name):
        who, view = e.func.value.id, e.keywords[0].value.id
        c = tr_cid(e.args[0], loopvars)
        if who not in ('data', 'other') or view not in ('view', 'mask_right'):
            fail(e, 'get_data on %s with view=%s' % (who, view))
        vt = 'VView' if view == 'view' else '(VMask mask_right)'
        return 'fetch %s %s %s' % (who, vt, c), ('L' if (who, view) == ('data', 'view') else 'R'), rav
    return None


def tr_arr(e, env, loopvars):
    """an array expression: a fetch, a local array, or <local>.ravel()"""
    f = tr_fetch(e, loopvars)
    if f:
        return '(%s)' % f[0], f[1]
    if isinstance(e, ast.Call) and isinstance(e.func, ast.Attribute) and e.func.attr == 'ravel' and not e.args and not e.keywords:
        e = e.func.value
    if isinstance(e, ast.Name) and e.id in env:
        return e.id, env[e.id]
    fail(e, 'array expression')


def tr_mask_expr(e, env, loopvars):
    if isinstance(e, ast.Call) and isinstance(e.func, ast.Name) and e.func.id == 'isin_by_value' and len(e.args) == 2 and not e.keywords:
        a, b = tr_arr(e.args[0], env, loopvars), tr_arr(e.args[1], env, loopvars)
        return 'K_isin_by_value %s %s' % (a[0], b[0])
    if isinstance(e, ast.Call) and ast.unparse(e.func) == 'np.zeros_like' and len(e.args) == 1 and len(e.keywords) == 1 \
            and e.keywords[0].arg == 'dtype' and ast.unparse(e.keywords[0].value) == 'bool':
        return 'K_zeros_like %s' % tr_arr(e.args[0], env, loopvars)[0]
    fail(e, 'mask expression')


NN_BLOCK = '''key_left_all = []
key_right_all = []
for cid1_i, cid2_i in zip(cid1, cid2):
    key_left = data.get_data(cid1_i, view=view).ravel()
    key_right = other.get_data(cid2_i, view=mask_right).ravel()
    dtype = np.promote_types(key_left.dtype, key_right.dtype)
    key_left = np.asarray(key_left, dtype=dtype)
    key_right = np.asarray(key_right, dtype=dtype)
    if dtype.kind == 'f':
        key_left = key_left + 0.0
        key_right = key_right + 0.0
    key_left_all.append(key_left)
    key_right_all.append(key_right)
key_left_all = concatenate_arrays(*key_left_all)
key_right_all = concatenate_arrays(*key_right_all)
mask = np.isin(key_left_all, key_right_all)
return mask.reshape(data.get_data(cid1_i, view=view).shape)'''


def tr_branch(stmts):
    """the body of one branch of the dispatch -> a Gallina term of type mask"""
    text = '\n'.join(ast.unparse(s) for s in stmts)
    if text == NN_BLOCK:
        return 'K_nn_isin data other mask_right (combine cid1 cid2)'
    env = {}          # local arrays -> side
    shapes = {}       # local arrays that still have the shape of the (viewed) left dataset
    out = []
    have_mask = False
    for k, s in enumerate(stmts):
        last = k == len(stmts) - 1
        if isinstance(s, ast.Return):
            if not last:
                fail(s, 'code after return')
            v = s.value
            # mask.reshape(<left array, not raveled>.shape)
            if not (have_mask and isinstance(v, ast.Call) and isinstance(v.func, ast.Attribute) and v.func.attr == 'reshape'
                    and isinstance(v.func.value, ast.Name) and v.func.value.id == 'mask' and len(v.args) == 1 and not v.keywords
                    and isinstance(v.args[0], ast.Attribute) and v.args[0].attr == 'shape'):
                fail(s, 'returned value')
            src = v.args[0].value
            ok = (isinstance(src, ast.Name) and shapes.get(src.id)) or \
                 (lambda f: f is not None and f[1] == 'L' and not f[2])(tr_fetch(src, ()))
            if not ok:
                fail(s, 'the mask must be given the shape of a (viewed) array of this dataset')
            out.append('mask')
            return '\n      '.join(out)
        if isinstance(s, ast.Assign) and len(s.targets) == 1 and isinstance(s.targets[0], ast.Name):
            name = s.targets[0].id
            if name == 'mask':
                out.append('let mask := %s in' % tr_mask_expr(s.value, env, ()))
                have_mask = True
                continue
            f = tr_fetch(s.value, ())
            if f is None:
                fail(s, 'assignment')
            env[name] = f[1]
            shapes[name] = (f[1] == 'L' and not f[2])
            out.append('let %s := %s in' % (name, f[0]))
            continue
        if isinstance(s, ast.For) and not s.orelse and have_mask and isinstance(s.target, ast.Name) \
                and isinstance(s.iter, ast.Name) and s.iter.id in ('cid1', 'cid2'):
            var = s.target.id
            inner = []
            lenv = dict(env)
            for t in s.body[:-1]:
                f = None
                if isinstance(t, ast.Assign) and len(t.targets) == 1 and isinstance(t.targets[0], ast.Name):
                    f = tr_fetch(t.value, (var,))
                if f is None:
                    fail(t, 'statement in a key loop')
                lenv[t.targets[0].id] = f[1]
                inner.append('let %s := %s in' % (t.targets[0].id, f[0]))
            t = s.body[-1]
            if not (isinstance(t, ast.AugAssign) and isinstance(t.op, ast.BitOr) and isinstance(t.target, ast.Name) and t.target.id == 'mask'):
                fail(t, 'accumulation in a key loop')
            out.append('let mask := fold_left (fun mask %s => %s K_or mask (%s)) %s mask in'
                       % (var, ' '.join(inner), tr_mask_expr(t.value, lenv, (var,)), s.iter.id))
            continue
        fail(s, 'statement in a dispatch branch')
    fail(stmts[-1], 'branch does not return')


def tr_dispatch(node):
    """if / elif chain on the lengths; every branch returns a mask; the final else raises"""
    if not isinstance(node, ast.If):
        fail(node, 'dispatch expected')
    cond = tr_len_cond(node.test, ('cid1', 'cid2'))
    body = tr_branch(node.body)
    if len(node.orelse) == 1 and isinstance(node.orelse[0], ast.If):
        rest = tr_dispatch(node.orelse[0])
    elif len(node.orelse) == 1 and isinstance(node.orelse[0], ast.Raise) and isinstance(node.orelse[0].exc, ast.Call) \
            and ast.unparse(node.orelse[0].exc.func) == 'Exception':
        rest = 'Bad 1'
    else:
        fail(node, 'else branch of the dispatch')
    return 'if %s then Mask (\n      %s)\n    else %s' % (cond, body, rest)


DISPATCH = []


def tr_loop_body(stmts, bools):
    """statements of the loop body -> Gallina term of type outcome * list nat; `continue` = LOOP flags"""
    if not stmts:
        return 'LOOP flags'
    s, rest = stmts[0], stmts[1:]
    if isinstance(s, ast.Continue):
        return 'LOOP flags'
    fa = flag_assign(s, bools)
    if fa:
        return fa + '\n    ' + tr_loop_body(rest, bools)
    if isinstance(s, ast.Assign) and len(s.targets) == 1 and isinstance(s.targets[0], ast.Name) and flag_read(s.value):
        return 'let %s := flag_get %s flags in\n    %s' % (s.targets[0].id, flag_read(s.value), tr_loop_body(rest, bools | {s.targets[0].id}))
    if isinstance(s, ast.If) and not s.orelse and (flag_read(s.test) or (isinstance(s.test, ast.Name) and s.test.id in bools)):
        c = 'flag_get %s flags' % flag_read(s.test) if flag_read(s.test) else s.test.id
        return 'if %s then (%s)\n    else %s' % (c, tr_loop_body(s.body, bools), tr_loop_body(rest, bools))
    if isinstance(s, ast.Try):
        if s.orelse or len(s.handlers) != 1:
            fail(s, 'try form')
        h = s.handlers[0]
        if not (isinstance(h.type, ast.Name) and h.type.id == 'IncompatibleAttribute' and h.name is None):
            fail(s, 'except clause')
        pre = []
        body = list(s.body)
        while body and flag_assign(body[0], bools):
            pre.append(flag_assign(body.pop(0), bools))
        if not (len(body) == 1 and ast.unparse(body[0]) == 'mask_right = other.get_mask(subset_state)'):
            fail(s, 'try body (flag assignments, then mask_right = other.get_mask(subset_state))')
        fin = []
        for t in s.finalbody:
            f = flag_assign(t, bools)
            if not f:
                fail(t, 'statement in finally')
            fin.append(f)
        fin = ' '.join(fin)
        hbody = tr_loop_body(h.body, bools) if all(isinstance(t, ast.Continue) or flag_assign(t, bools) for t in h.body) else fail(h, 'except body')
        return ('%s\n    let (r_, flags) := other_get_mask flags other in\n    %s\n    match r_ with\n'
                '    | Incompatible => %s\n    | Mask mask_right =>\n    %s\n    | x_ => (x_, flags)\n    end'
                % (' '.join(pre), fin, hbody, tr_loop_body(rest, bools)))
    if isinstance(s, ast.If):
        if rest:
            fail(rest[0], 'code after the dispatch')
        DISPATCH.append(tr_dispatch(s))
        return '(kj_dispatch data other mask_right cid1 cid2, flags)'
    fail(s, 'statement in the loop over key_joins')


def gen_get_mask():
    mod = ast.parse(open(os.path.join(REPO, 'glue/core/joins.py')).read())
    fn = find_fn(mod, 'get_mask_with_key_joins')
    if [a.arg for a in fn.args.args] != ['data', 'key_joins', 'subset_state', 'view']:
        fail(fn, 'signature')
    body = [s for s in fn.body if not is_doc(s)]
    if len(body) != 2 or not isinstance(body[0], ast.For) or body[0].orelse:
        fail(fn, 'function shape (loop over key_joins + final raise)')
    loop, final = body
    if ast.unparse(loop.target) != '(other, (cid1, cid2))' or ast.unparse(loop.iter) != 'key_joins.items()':
        fail(loop, 'loop header')
    if not (isinstance(final, ast.Raise) and ast.unparse(final.exc) in ('IncompatibleAttribute', 'IncompatibleAttribute()')):
        fail(final, 'final raise')
    term = tr_loop_body(list(loop.body), set())
    if len(DISPATCH) != 1:
        fail(fn, 'exactly one dispatch expected')
    return ('(* the dispatch on the numbers of key components *)\n'
            'Definition kj_dispatch (data other : nat) (mask_right : mask) (cid1 cid2 : list nat) : outcome :=\n    %s.\n\n' % DISPATCH[0] +
            '(* other.get_mask(subset_state), given the flags as they are at the call; returns the flags as it leaves them *)\n'
            'Variable other_get_mask : list nat -> nat -> outcome * list nat.\n\n' +'Fixpoint get_mask_with_key_joins (flags : list nat) (data : nat) (key_joins : list join) : outcome * list nat :=\n'
            '  match key_joins with\n  | [] => (Incompatible, flags)\n  | (other, (cid1, cid2)) :: rest_ =>\n'
            '    let LOOP := fun flags => get_mask_with_key_joins flags data rest_ in\n    %s\n  end.\n' % term)


# ------------------------------------------------------------------ Data.join_on_key
JOK_MIDDLE = '''if isinstance(cid, str) or isinstance(cid, ComponentID):
    cid = (cid,)
if isinstance(cid_other, str) or isinstance(cid_other, ComponentID):
    cid_other = (cid_other,)
#CHECK
def get_component_id(data, name):
    if isinstance(name, ComponentID):
        return name
    else:
        cid = data.find_component_id(name)
        if cid is None:
            raise ValueError('ComponentID not found in %s: %s' % (data.label, name))
        return cid
cid = tuple((get_component_id(self, name) for name in cid))
cid_other = tuple((get_component_id(other, name) for name in cid_other))'''


def gen_join_on_key():
    mod = ast.parse(open(os.path.join(REPO, 'glue/core/data.py')).read())
    fn = find_fn(mod, 'join_on_key', 'Data')
    if [a.arg for a in fn.args.args] != ['self', 'other', 'cid', 'cid_other']:
        fail(fn, 'signature')
    body = [s for s in fn.body if not is_doc(s)]
    checks = [s for s in body if isinstance(s, ast.If) and len(s.body) == 1 and isinstance(s.body[0], ast.Raise) and not s.orelse]
    if len(checks) != 1 or ast.unparse(checks[0].body[0].exc.func) != 'Exception':
        fail(fn, 'exactly one shape check `if ...: raise Exception(...)` expected')
    cond = tr_len_cond(checks[0].test, ('cid', 'cid_other'))
    regs = []
    others = []
    for s in body:
        if s is checks[0]:
            others.append('#CHECK')
            continue
        if isinstance(s, ast.Assign) and len(s.targets) == 1 and isinstance(s.targets[0], ast.Subscript) \
                and ast.unparse(s.targets[0].value) in ('self._key_joins', 'other._key_joins'):
            t = s.targets[0]
            holder = t.value.value.id
            if not (isinstance(t.slice, ast.Name) and t.slice.id in ('self', 'other')):
                fail(s, 'key of the _key_joins entry')
            v = s.value
            if not (isinstance(v, ast.Tuple) and len(v.elts) == 2 and all(isinstance(x, ast.Name) and x.id in ('cid', 'cid_other') for x in v.elts)):
                fail(s, 'value of the _key_joins entry')
            regs.append('let js := kj_store js %s %s (%s, %s) in' % (holder, t.slice.id, v.elts[0].id, v.elts[1].id))
            if others and others[-1] != '#REG':
                others.append('#REG')
            continue
        others.append(ast.unparse(s))
    if '\n'.join(others) != JOK_MIDDLE + '\n#REG':
        raise Unsupported('Data.join_on_key: statements other than the shape check and the registrations differ from the template:\n' + '\n'.join(others))
    if not regs:
        fail(fn, 'no registration')
    return ('Definition join_on_key_reg (js : list (list join)) (self other : nat) (cid cid_other : list nat) : list (list join) * Z :=\n'
            '  if %s then (js, E_SHAPE)\n  else\n    %s\n    (js, 0).\n' % (cond, '\n    '.join(regs)))


# ------------------------------------------------------------------ LinkManager.add_link / remove_link, JoinLink branch
def tr_link_expr(e, env):
    """link.data1 | link.data2 | link.cids1[0] | link.cids2[0] | <cid expr>.parent | local  ->  (term, 'data' | 'cid')"""
    if isinstance(e, ast.Name) and e.id in env:
        return env[e.id]
    if isinstance(e, ast.Attribute) and isinstance(e.value, ast.Name) and e.value.id == 'link' and e.attr in ('data1', 'data2'):
        return '(%s link)' % e.attr, 'data'
    if isinstance(e, ast.Subscript) and isinstance(e.value, ast.Attribute) and isinstance(e.value.value, ast.Name) and e.value.value.id == 'link' \
            and e.value.attr in ('cids1', 'cids2') and isinstance(e.slice, ast.Constant) and e.slice.value == 0 and not isinstance(e.slice.value, bool):
        return '(hd dcid (%s link))' % e.value.attr, 'cid'
    if isinstance(e, ast.Attribute) and e.attr == 'parent':
        t, k = tr_link_expr(e.value, env)
        if k == 'cid':
            return '(cid_parent %s)' % t, 'data'
    fail(e, 'expression on the link')


def join_branch(fn, what):
    """the statements under `if isinstance(link, JoinLink):` in the non-list branch"""
    found = []
    for n in ast.walk(fn):
        if isinstance(n, ast.If) and ast.unparse(n.test) == 'isinstance(link, JoinLink)':
            found.append(n)
    if len(found) != 1 or found[0].orelse:
        fail(fn, '%s: exactly one `if isinstance(link, JoinLink):` without else expected' % what)
    return found[0].body


def gen_add_link():
    mod = ast.parse(open(os.path.join(REPO, 'glue/core/link_manager.py')).read())
    fn = find_fn(mod, 'add_link', 'LinkManager')
    env = {}
    out = None
    stmts = join_branch(fn, 'add_link')
    for k, s in enumerate(stmts):
        if isinstance(s, ast.Assign) and len(s.targets) == 1 and isinstance(s.targets[0], ast.Name):
            env[s.targets[0].id] = tr_link_expr(s.value, env)
            continue
        if isinstance(s, ast.Expr) and isinstance(s.value, ast.Call) and isinstance(s.value.func, ast.Attribute) \
                and s.value.func.attr == 'join_on_key' and len(s.value.args) == 3 and not s.value.keywords and k == len(stmts) - 1:
            recv = tr_link_expr(s.value.func.value, env)
            a = [tr_link_expr(x, env) for x in s.value.args]
            if [recv[1], a[0][1], a[1][1], a[2][1]] != ['data', 'data', 'cid', 'cid']:
                fail(s, 'kinds of the arguments of join_on_key')
            out = 'join_on_key_cids %s %s %s %s' % (recv[0], a[0][0], a[1][0], a[2][0])
            continue
        fail(s, 'statement in the JoinLink branch of add_link')
    if out is None:
        fail(fn, 'no join_on_key call in the JoinLink branch of add_link')
    return ('(* LinkManager.add_link, JoinLink branch *)\n'
            'Definition add_link_join {T} (join_on_key_cids : nat -> nat -> cid -> cid -> T) (link : jlink) : T :=\n  %s.\n' % out)


REMOVE_TEMPLATE = '''data_to_remove_from_data1 = None
data_to_remove_from_data2 = None
for other_data, key_join in <S0>._key_joins.items():
    cid, cid_other = key_join
    if other_data == <S1>:
        if cid[0] == <S2> and cid_other[0] == <S3>:
            data_to_remove_from_data1 = other_data
            data_to_remove_from_data2 = <S4>
<S5>._key_joins.pop(data_to_remove_from_data1)
<S6>._key_joins.pop(data_to_remove_from_data2)'''


def gen_remove_link():
    mod = ast.parse(open(os.path.join(REPO, 'glue/core/link_manager.py')).read())
    fn = find_fn(mod, 'remove_link', 'LinkManager')
    stmts = join_branch(fn, 'remove_link')
    slots = []
    try:
        loop = stmts[2]
        if0 = loop.body[1]
        if1 = if0.body[0]
        slots = [loop.iter.func.value.value, if0.test.comparators[0], if1.test.values[0].comparators[0], if1.test.values[1].comparators[0],
                 if1.body[1].value, stmts[3].value.func.value.value, stmts[4].value.func.value.value]
    except (AttributeError, IndexError):
        fail(fn, 'JoinLink branch of remove_link does not have the expected shape')
    text = '\n'.join(ast.unparse(s) for s in stmts)
    templ = REMOVE_TEMPLATE
    terms = []
    kinds = ['data', 'data', 'cid', 'cid', 'data', 'data', 'data']
    for i, e in enumerate(slots):
        templ = templ.replace('<S%d>' % i, ast.unparse(e))
        t, k = tr_link_expr(e, {})
        if k != kinds[i]:
            fail(e, 'kind of slot %d' % i)
        terms.append(t)
    if text != templ:
        raise Unsupported('LinkManager.remove_link: the JoinLink branch differs from the template:\n' + text)
    return ('(* LinkManager.remove_link, JoinLink branch: the dict searched, the dataset and ids an entry is compared with, the dataset\n'
            '   popped from the second dict, and the two datasets whose dicts are popped *)\n'
            'Definition remove_link_join {T} (remove_join : nat -> nat -> cid -> cid -> nat -> nat -> nat -> T) (link : jlink) : T :=\n'
            '  remove_join %s.\n' % ' '.join(terms))


HEADER = '''(* GENERATED by tools/gen/gen_joins.py from glue/core/joins.py, glue/core/data.py, glue/core/link_manager.py on every run -- do not edit. *)
From Coq Require Import ZArith List Bool.
Import ListNotations.
From GV Require Import C11.Model.
Open Scope Z_scope.

Definition zlen {A} (l : list A) : Z := Z.of_nat (length l).
(* the _recursing attributes: the datasets whose flag is True *)
Definition flag_get (d : nat) (flags : list nat) : bool := memb d flags.
Definition flag_set (d : nat) (v : bool) (flags : list nat) : list nat :=
  if v then d :: flags else filter (fun x => negb (Nat.eqb x d)) flags.
(* X._key_joins[Y] = v *)
Definition kj_store (js : list (list join)) (x y : nat) (v : list nat * list nat) : list (list join) :=
  upd x (dict_set y v (nth x js [])) js.
Definition mask : Type := list bool.
Inductive gview : Type := VView | VMask (m : mask).

Section Skeleton.
Variable arr : Type.
(* X.get_data(c, view=V)[.ravel()]  with V = the caller's view, or the mask the other dataset answered *)
Variable fetch : nat -> gview -> nat -> arr.
Variable K_isin_by_value : arr -> arr -> mask.
Variable K_zeros_like : arr -> mask.
Variable K_or : mask -> mask -> mask.
Variable K_nn_isin : nat -> nat -> mask -> list (nat * nat) -> mask.

'''


def generate():
    parts = [HEADER, gen_get_mask(), 'End Skeleton.\n\n', gen_join_on_key(), '\n', gen_add_link(), '\n', gen_remove_link()]
    text = ''.join(parts)
    if not os.path.exists(OUT) or open(OUT).read() != text:
        open(OUT, 'w').write(text)


if __name__ == '__main__':
    try:
        generate()
    except Unsupported as e:
        print('TRANSLATION-FAILED: %s' % e)
        sys.exit(3)
    print('ok', OUT)
