#!/usr/bin/env python3
"""
Regenerate coq/gen/Gen_memo.v from the *current* source of glue (ast scan only, nothing is imported).

What is extracted (properties C01 and C05):

  (c_copy: the class whose body defines the copy() a class uses; 0 = the base SubsetState.copy, which returns an EMPTY selection)
  classes      every class that derives (transitively, by base-class name) from `SubsetState`, in any
               non-test module under glue/ : its parent, the class whose body defines the `to_mask`
               it uses (single inheritance walk), whether that definition carries `@memoize`
               (=> the function cache it shares), and its kind:
                    0 elementary   1 and   2 or   3 xor   (from `op = operator.and_ / or_ / xor` in the class body)
                    4 invert (to_mask returns `~ self.state1.to_mask(...)`)
                    5 n-ary or (to_mask: copy of the first child's mask, then `result |= child mask` in a loop)
                    6 abstract composite (CompositeSubsetState itself, op = None)
               plus whether the n-ary or copies its first mask (`.copy()` present) and which child the
               invert negates (state1 / state2).
  clear sites  every call `clear_cache(...)` in non-test modules: the mutation path it is on, its scope
                    0 = the function cache of the top-level state's to_mask of each attached subset
                        (`for subset in self.subsets: clear_cache(subset.subset_state.to_mask)`)
                    1 = the function caches of every state reachable from each attached subset's state
                    2 = every to_mask function cache of every SubsetState class
               and whether it happens before the first `hub.broadcast(` of the function.
               A clear site of scope 2 is recognised through a module-level helper function whose body
               walks `__subclasses__()` and calls `clear_cache(<cls>.to_mask)` (or .__dict__['to_mask']);
               scope 1 through a helper that recurses over `state1` / `state2` / `states`.
               Anything else fails closed (scope 99 = unknown, which no theorem accepts).
  mutation paths (fixed numbering, used by C05's model):
                    0 Data.update_components          1 Data.update_values_from_data
                    2 SubsetState attribute assignment (`SubsetState.__setattr__`)
                    3 RoiSubsetStateNd.move_to (in-place move of the ROI object)
                    4 Data._set_externally_derivable_components (links added / removed)   5 Data._set_pixel_aligned_data
                    6 Data.remove_component   7 Data.add_component (replacing the values behind an existing attribute)
               every site also records whether it is UNCONDITIONAL: executed whenever the mutating statement of its function is
               (same or enclosing block, after it, no return in between); a call under a further `if` is conditional
"""
import ast
import os
import sys

HERE = os.path.dirname(os.path.abspath(__file__))
REPO = os.environ.get('GLUE_REPO', '/repo')


class Unsupported(Exception):
    pass


def py_files():
    root = os.path.join(REPO, 'glue')
    for dp, dn, fn in os.walk(root):
        dn[:] = sorted(d for d in dn if d not in ('tests', '__pycache__'))
        for f in sorted(fn):
            if f.endswith('.py') and not f.startswith('test_'):
                yield os.path.join(dp, f)


def base_name(b):
    if isinstance(b, ast.Name):
        return b.id
    if isinstance(b, ast.Attribute):
        return b.attr
    return None


def deco_names(fn):
    out = []
    for d in fn.decorator_list:
        if isinstance(d, ast.Call):
            d = d.func
        n = base_name(d)
        if n:
            out.append(n)
    return out


def src(node):
    return ast.unparse(node)


def scan():
    classes = {}      # name -> dict
    modules = {}
    for path in py_files():
        try:
            tree = ast.parse(open(path).read())
        except SyntaxError as e:  # pragma: no cover
            raise Unsupported('cannot parse %s: %s' % (path, e))
        rel = os.path.relpath(path, REPO)
        modules[rel] = tree
        for node in ast.walk(tree):
            if isinstance(node, ast.ClassDef):
                info = {'name': node.name, 'module': rel, 'bases': [base_name(b) for b in node.bases], 'node': node,
                        'line': node.lineno}
                classes.setdefault(node.name, []).append(info)
    # the SubsetState family
    if 'SubsetState' not in classes or len(classes['SubsetState']) != 1:
        raise Unsupported('expected exactly one class SubsetState')
    fam = {'SubsetState': classes['SubsetState'][0]}
    changed = True
    while changed:
        changed = False
        for name, infos in classes.items():
            for info in infos:
                if name in fam:
                    continue
                inb = [b for b in info['bases'] if b in fam]
                if inb:
                    if len(infos) != 1:
                        raise Unsupported('two classes named %s, one of them a SubsetState' % name)
                    if len(inb) != 1:
                        raise Unsupported('class %s has several SubsetState bases' % name)
                    info['parent'] = inb[0]
                    fam[name] = info
                    changed = True
    fam['SubsetState']['parent'] = 'SubsetState'
    return fam, modules


def class_body_fn(info, name):
    for n in info['node'].body:
        if isinstance(n, ast.FunctionDef) and n.name == name:
            return n
    return None


def class_attr(info, name):
    for n in info['node'].body:
        if isinstance(n, ast.Assign) and len(n.targets) == 1 and isinstance(n.targets[0], ast.Name) and n.targets[0].id == name:
            return n.value
    return None


def resolve(fam, cname, what):
    """class of the family whose body defines `what` (function or attribute) for cname"""
    seen = set()
    c = cname
    while True:
        if c in seen:
            raise Unsupported('inheritance cycle at ' + c)
        seen.add(c)
        info = fam[c]
        if what == 'to_mask' and class_body_fn(info, 'to_mask') is not None:
            return c
        if what == 'op' and class_attr(info, 'op') is not None:
            return c
        if what == 'copy' and class_body_fn(info, 'copy') is not None:
            return c
        if c == 'SubsetState':
            return None
        c = info['parent']


OPS = {'and_': 1, 'or_': 2, 'xor': 3}


def kind_of(fam, cname):
    """(kind, detail) ; detail: invert -> 1/2 = negated child ; n-ary or -> 1 if first mask copied else 0"""
    d = resolve(fam, cname, 'to_mask')
    fn = class_body_fn(fam[d], 'to_mask')
    text = src(fn)
    opc = resolve(fam, cname, 'op')
    composite = False
    c = cname
    while c != 'SubsetState':
        if c == 'CompositeSubsetState':
            composite = True
        c = fam[c]['parent']
    if composite:
        # invert: its own to_mask returning ~child
        rets = [n for n in ast.walk(fn) if isinstance(n, ast.Return)]
        if d != 'CompositeSubsetState':
            if len(rets) == 1 and isinstance(rets[0].value, ast.UnaryOp) and isinstance(rets[0].value.op, ast.Invert):
                inner = src(rets[0].value.operand)
                if inner.startswith('self.state1.to_mask('):
                    return 4, 1
                if inner.startswith('self.state2.to_mask('):
                    return 4, 2
            raise Unsupported('composite class %s overrides to_mask in a way the scanner does not know: %s' % (cname, text[:200]))
        # generic composite: self.op(state1 mask, state2 mask)
        if len(rets) != 1 or not src(rets[0].value).replace(' ', '').replace('\n', '').startswith(
                'self.op(self.state1.to_mask(data,view),self.state2.to_mask(data,view))'):
            raise Unsupported('CompositeSubsetState.to_mask is not `self.op(state1 mask, state2 mask)`: ' + text[:300])
        v = class_attr(fam[opc], 'op')
        if isinstance(v, ast.Constant) and v.value is None:
            return 6, 0
        if isinstance(v, ast.Attribute) and base_name(v.value) == 'operator' and v.attr in OPS:
            return OPS[v.attr], 0
        raise Unsupported('class %s: op = %s not understood' % (cname, src(v)))
    if cname == 'MultiOrState' or fam[cname]['parent'] == 'MultiOrState':
        t = text.replace(' ', '')
        if 'result|=state.to_mask(data,view=view)' not in t or 'forstateinself.states[1:]' not in t:
            raise Unsupported('MultiOrState.to_mask shape not understood: ' + text[:300])
        if 'result=self.states[0].to_mask(data,view=view).copy()' in t:
            return 5, 1
        if 'result=self.states[0].to_mask(data,view=view)' in t:
            return 5, 0
        raise Unsupported('MultiOrState.to_mask first statement not understood: ' + text[:300])
    return 0, 0


PATHS = {'update_components': 0, 'update_values_from_data': 1, '__setattr__': 2, 'move_to': 3,
         '_set_externally_derivable_components': 4, '_set_pixel_aligned_data': 5,
         'remove_component': 6, 'add_component': 7}

# the statements that ARE the mutation on each path (prefix of the unparsed statement).  A clearing call counts as
# unconditional only if it is executed whenever every one of these statements of the function is executed: it must sit
# in the same block as the mutating statement or in a block that encloses it, and after it.  A call nested under an `if`
# (or loop / try / with) that does not also contain the mutation is "conditional" and does not cover the path.
MUTATORS = {0: ['comp._data ='], 1: ['comp_old._data =', 'self._shape ='],
            2: ['object.__setattr__('],
            3: ['self._roi.move_to(', 'self.lo =', 'self.hi =', 'self.state1.move_to(', 'self.state2.move_to('],
            4: ['self._externally_derivable_components ='], 5: ['self._pixel_aligned_data ='],
            6: ['self._components.pop('], 7: ['self._components[component_id] =']}


def block_paths(fn):
    """statement node -> tuple of ids of the enclosing compound statements (with the branch name), innermost last"""
    out = {}

    def walk(stmts, path):
        for st in stmts:
            out[id(st)] = (path, st)
            for field in ('body', 'orelse', 'finalbody', 'handlers'):
                sub = getattr(st, field, None)
                if isinstance(sub, list) and sub and not isinstance(st, (ast.FunctionDef, ast.ClassDef)):
                    if field == 'handlers':
                        for h in sub:
                            walk(h.body, path + ((id(st), 'handler%d' % id(h)),))
                    else:
                        walk(sub, path + ((id(st), field),))
    walk(fn.body, ())
    return out


def stmt_of(fn, node, bp):
    """the statement of fn (as registered in bp) that contains the expression node"""
    best = None
    for path, st in bp.values():
        if any(n is node for n in ast.walk(st)):
            if best is None or len(path) > len(best[0]):
                best = (path, st)
    return best


def is_unconditional(fn, call, path_no):
    bp = block_paths(fn)
    here = stmt_of(fn, call, bp)
    if here is None:
        return False
    cpath, cst = here
    # the call must be a statement of its own (not an operand of something else)
    if not (isinstance(cst, ast.Expr) and cst.value is call):
        return False
    muts = []
    for mpath, st in bp.values():
        if isinstance(st, (ast.If, ast.For, ast.While, ast.Try, ast.With)):
            continue
        text = src(st)
        if any(text.startswith(pref) for pref in MUTATORS.get(path_no, [])):
            muts.append((mpath, st))
    if not muts:
        return False
    for mpath, st in muts:
        if mpath[:len(cpath)] != cpath or st.lineno >= cst.lineno:
            return False
    # no return between the last mutation and the call, in the call's own block or the blocks of the mutations
    last = max(st.lineno for _, st in muts)
    for _, st in bp.values():
        if isinstance(st, ast.Return) and last < st.lineno < cst.lineno:
            return False
    return True


def helper_scopes(modules):
    """module-level functions that clear caches: name -> scope"""
    out = {}
    for rel, tree in modules.items():
        for fn in tree.body:
            if not isinstance(fn, ast.FunctionDef):
                continue
            calls = [n for n in ast.walk(fn) if isinstance(n, ast.Call) and base_name(n.func) == 'clear_cache']
            if not calls or fn.name == 'clear_cache':
                continue
            text = src(fn)
            transitive = (any(isinstance(w, ast.While) and '__subclasses__()' in src(w) and ('.extend(' in src(w) or '.append(' in src(w))
                              for w in ast.walk(fn)) or
                          any(isinstance(n, ast.Call) and base_name(n.func) == fn.name for n in ast.walk(fn)))
            if '__subclasses__()' in text and 'SubsetState' in text and all('to_mask' in src(c) for c in calls) and transitive:
                out[fn.name] = 2
            elif ('state1' in text and 'state2' in text and 'states' in text and
                  any(isinstance(n, ast.Call) and base_name(n.func) == fn.name for n in ast.walk(fn))):
                out[fn.name] = 1
            else:
                out[fn.name] = 99
    return out


def clear_sites(modules):
    helpers = helper_scopes(modules)
    sites = []
    for rel, tree in modules.items():
        for cls in [n for n in ast.walk(tree) if isinstance(n, ast.ClassDef)]:
            for fn in cls.body:
                if not isinstance(fn, ast.FunctionDef):
                    continue
                bl = [n.lineno for n in ast.walk(fn) if isinstance(n, ast.Call) and src(n.func).endswith('hub.broadcast')]
                first_b = min(bl) if bl else None
                for n in ast.walk(fn):
                    if not isinstance(n, ast.Call):
                        continue
                    name = base_name(n.func)
                    scope = None
                    if name == 'clear_cache':
                        arg = src(n.args[0]) if n.args else ''
                        if arg == 'subset.subset_state.to_mask' and 'for subset in self.subsets' in src(fn):
                            scope = 0
                        else:
                            scope = 99
                    elif name in helpers:
                        scope = helpers[name]
                        if scope == 1 and not (n.args and src(n.args[0]) == 'subset.subset_state'):
                            scope = 99
                    if scope is None:
                        continue
                    path = PATHS.get(fn.name, 99)
                    before = first_b is None or n.lineno < first_b
                    uncond = scope == 0 or is_unconditional(fn, n, path)
                    sites.append({'where': '%s:%s.%s:%d' % (rel, cls.name, fn.name, n.lineno), 'path': path,
                                  'scope': scope, 'before': before, 'fn': (rel, cls.name, fn.name), 'uncond': uncond})
    sites.sort(key=lambda s: s['where'])
    return sites, helpers


def memo_key_facts(modules):
    """decorators.py: is the memo key the plain (args, frozenset(kwargs.items())), and is `memoize` the wrapper the model describes
    (look up, else compute and store; unhashable key -> plain call)?  1 = yes, 0 = anything else (fail closed)"""
    tree = modules.get('glue/core/decorators.py')
    if tree is None:
        return 0, 0
    fns = {f.name: f for f in tree.body if isinstance(f, ast.FunctionDef)}
    plain = 0
    mk = fns.get('_make_key')
    if mk is not None:
        body = [st for st in mk.body if not (isinstance(st, ast.Expr) and isinstance(st.value, ast.Constant))]
        if (len(body) == 1 and isinstance(body[0], ast.Return) and
                src(body[0].value).replace(' ', '') in ('(args,frozenset(kwargs.items()))', 'args,frozenset(kwargs.items())') and
                [a.arg for a in mk.args.args] == ['args', 'kwargs']):
            plain = 1
    # nothing else in the module may feed the key
    wrapper_ok = 0
    mz = fns.get('memoize')
    if mz is not None:
        t = src(mz).replace(' ', '')
        if ('key=_make_key(args,kwargs)' in t and 'returnmemo[key]' in t and 'memo[key]=result' in t and
                t.count('_make_key(') == 1 and 'result=func(*args,**kwargs)' in t):
            wrapper_ok = 1
    return plain, wrapper_ok


HIST_FIELDS = {'id(self.viewer_state.x_att)': 1, 'self.viewer_state.x_log': 2, 'self.viewer_state.hist_x_min': 3,
               'self.viewer_state.hist_x_max': 4, 'self.viewer_state.hist_n_bin': 5}


def hist_key_fields(modules):
    """HistogramLayerState.update_histogram: the fields of the cache key `current_settings = (...)`, coded
    1 id(x_att) 2 x_log 3 hist_x_min 4 hist_x_max 5 hist_n_bin, 9 anything else"""
    tree = modules.get('glue/viewers/histogram/state.py')
    if tree is None:
        return [9]
    for cls in [n for n in ast.walk(tree) if isinstance(n, ast.ClassDef) and n.name == 'HistogramLayerState']:
        for fn in cls.body:
            if isinstance(fn, ast.FunctionDef) and fn.name == 'update_histogram':
                for st in ast.walk(fn):
                    if (isinstance(st, ast.Assign) and len(st.targets) == 1 and src(st.targets[0]) == 'current_settings' and
                            isinstance(st.value, ast.Tuple)):
                        return [HIST_FIELDS.get(src(e), 9) for e in st.value.elts]
    return [9]


def floodfill_key(modules):
    """FloodFillSubsetState: what the recompute test of the `mask` property compares.
    1 = `self._mask_cache[0] != self._hash or self._mask_cache[1] is not self.data[self.att]` with _compute_mask storing
        (self._hash, values, mask) where values = self.data[self.att]  (the parameters AND the identity of the array the attribute
        evaluates to now);  0 = the parameters only;  9 = anything else (fail closed)"""
    tree = modules.get('glue/core/subset.py')
    if tree is None:
        return 9
    for cls in [n for n in ast.walk(tree) if isinstance(n, ast.ClassDef) and n.name == 'FloodFillSubsetState']:
        fns = {}
        for f in cls.body:
            if isinstance(f, ast.FunctionDef):
                fns.setdefault(f.name, []).append(f)
        getter = [f for f in fns.get('mask', []) if 'property' in deco_names(f)]
        comp = fns.get('_compute_mask', [])
        if len(getter) != 1 or len(comp) != 1:
            return 9
        ifs = [n for n in ast.walk(getter[0]) if isinstance(n, ast.If)]
        if len(ifs) != 1:
            return 9
        test = src(ifs[0].test).replace(' ', '')
        ctext = src(comp[0]).replace(' ', '')
        if test == 'self._mask_cache[0]!=self._hash':
            return 0 if 'self._mask_cache=(self._hash,mask)' in ctext else 9
        if (test == 'self._mask_cache[0]!=self._hashorself._mask_cache[1]isnotself.data[self.att]' and
                'values=self.data[self.att]' in ctext and 'self._mask_cache=(self._hash,values,mask)' in ctext and
                'floodfill(values,self.start_coords,self.threshold)' in ctext):
            return 1
        return 9
    return 9


# ------------------------------------------------------------------ post-processing of cached values: alias / in-place IR
# Every function of a non-test module that reads a cache entry (an attribute / global whose name ends in `_cache` / `_CACHE`, the `memo` dict
# of decorators.memoize, the result of a memoised or otherwise cache-returning accessor such as `to_mask(..)`, `get_mask(..)`,
# `update_histogram()`, `.profile`) is translated, statement by statement, into the small IR of Gen_memo.v:
#     SAssign x c ys   x = e     where e MAY share memory with a cache entry if c, or with whatever the local names ys are bound to
#                                (`np.asarray(y)`, `y[..]`, `y.reshape(..)`, `y if .. else z`, an unknown call `f(y)`, unpacking y ...);
#                                `y.copy()`, `y.astype(t)` (without copy=False), `np.array(y)` (without copy=False), arithmetic, reductions
#                                and the other whitelisted array-producing calls give a NEW array: c = false, ys = []
#     SInplace x       x /= e, x *= e, x += e ..., x[..] = e, x.attr = e, del x[..], x.sort() / .fill(..) / .put(..) / .resize(..) / .partition(..) /
#                      list and dict mutators, any call with out=x (or np.copyto / np.put / np.place / np.putmask on x)
#     SInplaceCache    the same applied to a cache expression itself (`self._histogram_cache[1][1] /= 2`); a plain assignment to the cache
#                      attribute or to one of its entries is a STORE (that is how an entry gets there) and is not recorded
#     SIf a b, SLoop a, SReturn
# Whether a program can write into a cached value is then decided in Coq by the checker `safe_prog` of C05 (proved sound against the
# concrete semantics of the IR), on the table regenerated here.  Fail closed: an expression the translator does not know may alias every
# local name it mentions.  Limits (TRUSTED): intra-procedural (parameters are taken not to be cache entries; a value stored into an
# attribute other than a cache and modified through it later is not followed).
import re as _re

CACHE_NAME = _re.compile(r'(_cache|_CACHE)$')
NOT_ARRAY_CACHES = {'limits_cache', '_layers_data_cache', 'stat_cache', '_background_cache', '_pixel2world_cache', '_world2pixel_cache'}
FRESH_METHODS = {'copy', 'astype', 'cumsum', 'cumprod', 'sum', 'max', 'min', 'mean', 'std', 'var', 'any', 'all', 'tolist', 'nonzero', 'argsort',
                 'argmax', 'argmin', 'round', 'dot', 'repeat', 'take', 'compress', 'flatten', 'tobytes', 'prod', 'ptp', 'clip', 'conj', 'trace',
                 'searchsorted', 'item', 'keys', 'index', 'count', 'format', 'join', 'split', 'startswith', 'endswith', 'lower', 'upper'}
VIEW_METHODS = {'view', 'reshape', 'ravel', 'squeeze', 'transpose', 'swapaxes', 'get', 'values', 'items', 'diagonal', 'byteswap', 'newbyteorder',
                'setdefault', '__getitem__'}
MUTATING_METHODS = {'sort', 'fill', 'put', 'resize', 'partition', 'itemset', 'setfield', 'byteswap', 'append', 'extend', 'insert', 'remove', 'pop',
                    'clear', 'update', 'popitem', 'setdefault', 'reverse', 'add', 'discard', '__setitem__', '__delitem__', '__iadd__', '__imul__',
                    '__itruediv__', '__isub__', '__ior__', '__iand__', '__ixor__'}
STORE_METHODS = {'update', 'pop', 'clear', 'setdefault', 'popitem'}       # directly on the cache container: storing / dropping entries
FRESH_ATTRS = {'shape', 'size', 'ndim', 'dtype', 'nbytes', 'itemsize', 'strides', 'flags'}
NP_FRESH = {'array', 'copy', 'zeros', 'ones', 'empty', 'full', 'zeros_like', 'ones_like', 'empty_like', 'full_like', 'hstack', 'vstack', 'dstack',
            'concatenate', 'stack', 'cumsum', 'cumprod', 'sum', 'nansum', 'where', 'unique', 'histogram', 'histogram2d', 'histogramdd', 'linspace',
            'logspace', 'log10', 'log', 'log2', 'exp', 'sqrt', 'abs', 'absolute', 'nanmin', 'nanmax', 'min', 'max', 'amin', 'amax', 'isnan', 'isfinite',
            'isinf', 'all', 'any', 'sort', 'argsort', 'percentile', 'nanpercentile', 'median', 'nanmedian', 'mean', 'nanmean', 'std', 'nanstd',
            'searchsorted', 'digitize', 'arange', 'prod', 'diff', 'floor', 'ceil', 'round', 'around', 'clip', 'logical_and', 'logical_or',
            'logical_not', 'logical_xor', 'add', 'subtract', 'multiply', 'divide', 'true_divide', 'power', 'minimum', 'maximum', 'hypot', 'isscalar',
            'shape', 'ndim', 'size', 'array_equal', 'allclose', 'isclose', 'dot', 'meshgrid', 'indices', 'tile', 'repeat', 'bincount', 'count_nonzero',
            'in1d', 'isin', 'datetime64', 'float64', 'float32', 'int64', 'int32', 'bool_', 'issubdtype', 'result_type', 'nonzero', 'flatnonzero',
            'take', 'interp', 'sign', 'mod', 'sin', 'cos', 'tan', 'arctan2', 'radians', 'degrees', 'nan_to_num'}
NP_VIEW = {'asarray', 'asanyarray', 'ascontiguousarray', 'asfortranarray', 'atleast_1d', 'atleast_2d', 'atleast_3d', 'broadcast_to', 'broadcast_arrays',
           'reshape', 'ravel', 'squeeze', 'transpose', 'expand_dims', 'require', 'real', 'imag', 'swapaxes', 'moveaxis', 'rollaxis'}
NP_INPLACE_FIRST = {'copyto', 'put', 'place', 'putmask', 'put_along_axis', 'fill_diagonal'}
BUILTIN_FRESH = {'len', 'int', 'float', 'bool', 'str', 'repr', 'id', 'hash', 'isinstance', 'issubclass', 'type', 'range', 'abs', 'sum', 'min', 'max',
                 'any', 'all', 'sorted', 'round', 'hasattr', 'callable', 'frozenset', 'print', 'getattr'}
SEED_ACCESSORS = {'to_mask', 'get_mask'}


def is_np(node):
    return isinstance(node, ast.Name) and node.id in ('np', 'numpy')


def kw_false(call, name):
    return any(k.arg == name and isinstance(k.value, ast.Constant) and k.value is not None and k.value.value is False for k in call.keywords)


class IRBuilder:
    """one function body -> IR (python tuples, each statement carries its line)"""

    def __init__(self, fn, cache_names, accessors, props, param_mutators=()):
        self.fn, self.cache_names, self.accessors, self.props = fn, cache_names, accessors, props
        self.param_mutators = param_mutators
        self.vars = {}
        self.nsources = 0

    def var(self, name):
        if name not in self.vars:
            self.vars[name] = len(self.vars)
        return self.vars[name]

    def is_cache_expr(self, node):
        if isinstance(node, ast.Attribute) and (CACHE_NAME.search(node.attr) or node.attr in self.cache_names) and node.attr not in NOT_ARRAY_CACHES:
            return True
        if isinstance(node, ast.Name) and (CACHE_NAME.search(node.id) or node.id in self.cache_names) and node.id not in NOT_ARRAY_CACHES:
            return True
        return False

    def root(self, node):
        """('cache', None) | ('var', name) | ('other', None) : what a chain of subscripts / attributes hangs on"""
        depth = 0
        while True:
            if self.is_cache_expr(node):
                return ('cache', depth)
            if isinstance(node, ast.Attribute) and node.attr in self.props:
                return ('cache', depth)
            if isinstance(node, ast.Call) and isinstance(node.func, ast.Attribute) and node.func.attr in self.accessors:
                return ('cache', depth)
            if isinstance(node, (ast.Subscript, ast.Attribute, ast.Starred)):
                node = node.value
                depth += 1
                continue
            if isinstance(node, ast.Name):
                return ('var', node.id)
            return ('other', None)

    def names_in(self, node):
        out = []
        for n in ast.walk(node):
            if isinstance(n, ast.Name) and n.id in self.vars and n.id not in out:
                out.append(n.id)
        return out

    def mentions_cache(self, node):
        return any(self.is_cache_expr(n) or (isinstance(n, ast.Attribute) and n.attr in self.props) or
                   (isinstance(n, ast.Call) and isinstance(n.func, ast.Attribute) and n.func.attr in self.accessors) for n in ast.walk(node))

    def unknown(self, node):
        return (self.mentions_cache(node), self.names_in(node))

    def rhs(self, node):
        """(may alias a cache entry, [local names it may alias])"""
        if isinstance(node, (ast.Constant, ast.JoinedStr, ast.Compare, ast.BinOp, ast.UnaryOp, ast.Lambda)):
            if isinstance(node, (ast.BinOp, ast.UnaryOp, ast.Compare)) or isinstance(node, (ast.Constant, ast.JoinedStr, ast.Lambda)):
                return (False, [])
        if isinstance(node, ast.Name):
            if self.is_cache_expr(node):
                return (True, [])
            return (False, [node.id]) if node.id in self.vars else (False, [])
        if isinstance(node, (ast.Attribute, ast.Subscript)):
            if isinstance(node, ast.Attribute) and node.attr in FRESH_ATTRS:
                return (False, [])
            k, x = self.root(node)
            if k == 'cache':
                return (True, [])
            if k == 'var':
                return (False, [x]) if x in self.vars else (False, [])
            # hangs on a call / literal: whatever that may alias
            inner = node.value
            return self.rhs(inner)
        if isinstance(node, ast.Call):
            f = node.func
            has_out = [k for k in node.keywords if k.arg == 'out']
            if isinstance(f, ast.Attribute) and is_np(f.value):
                if f.attr in NP_VIEW or (f.attr in ('array', 'nan_to_num') and kw_false(node, 'copy')):
                    return self.rhs(node.args[0]) if node.args else (False, [])
                if f.attr in NP_FRESH and not has_out:
                    return (False, [])
                return self.unknown(node)
            if isinstance(f, ast.Attribute):
                if f.attr in self.accessors:
                    return (True, [])
                recv = self.rhs(f.value)
                if f.attr in FRESH_METHODS and not has_out and not (f.attr == 'astype' and kw_false(node, 'copy')):
                    return (False, [])
                if f.attr in VIEW_METHODS or (f.attr == 'astype' and kw_false(node, 'copy')):
                    return recv
                return self.unknown(node)
            if isinstance(f, ast.Name) and f.id in BUILTIN_FRESH:
                return (False, [])
            if isinstance(f, ast.Name) and f.id in ('list', 'tuple', 'dict', 'set'):
                return (False, [])               # a new container (its elements are shared, but they are not followed)
            return self.unknown(node)
        if isinstance(node, ast.IfExp):
            a, b = self.rhs(node.body), self.rhs(node.orelse)
            return (a[0] or b[0], a[1] + [y for y in b[1] if y not in a[1]])
        if isinstance(node, ast.BoolOp):
            c, ys = False, []
            for v in node.values:
                r = self.rhs(v)
                c = c or r[0]
                ys += [y for y in r[1] if y not in ys]
            return (c, ys)
        return self.unknown(node)

    def assign_target(self, tgt, value_rhs, value_node, line, out):
        if isinstance(tgt, ast.Name):
            self.var(tgt.id)
            if self.is_cache_expr(tgt):
                return          # a local / global cache name being (re)bound: a store
            out.append(('assign', tgt.id, value_rhs[0], list(value_rhs[1]), line))
        elif isinstance(tgt, (ast.Tuple, ast.List)):
            if isinstance(value_node, (ast.Tuple, ast.List)) and len(value_node.elts) == len(tgt.elts):
                for t, v in zip(tgt.elts, value_node.elts):
                    self.assign_target(t, self.rhs(v), v, line, out)
            else:
                for t in tgt.elts:
                    self.assign_target(t.value if isinstance(t, ast.Starred) else t, value_rhs, None, line, out)
        elif isinstance(tgt, (ast.Subscript, ast.Attribute)):
            if self.is_cache_expr(tgt):
                return          # self._x_cache = ... : a store
            k, x = self.root(tgt)
            if k == 'cache':
                return          # self._cache[key] = v, self._cache[key]['n'] = v : storing an entry
            if k == 'var' and x in self.vars:
                out.append(('inplace', x, line))
        # anything else: not a name

    def inplace_target(self, tgt, line, out):
        k, x = self.root(tgt)
        if k == 'cache':
            out.append(('inplace_cache', line))
        elif k == 'var':
            self.var(x)
            out.append(('inplace', x, line))

    def calls_effects(self, node, line, out):
        """in-place effects of the calls inside an expression / statement"""
        for c in ast.walk(node):
            if not isinstance(c, ast.Call):
                continue
            for k in c.keywords:
                if k.arg == 'out':
                    for e in (k.value.elts if isinstance(k.value, (ast.Tuple, ast.List)) else [k.value]):
                        self.inplace_target(e, line, out)
            f = c.func
            fname = f.attr if isinstance(f, ast.Attribute) else (f.id if isinstance(f, ast.Name) else None)
            if fname in self.param_mutators and not (isinstance(f, ast.Attribute) and is_np(f.value)):
                # a function of the source that modifies (what may be) one of its own arguments in place: the arguments in those positions
                hit = self.param_mutators[fname]
                star = any(isinstance(e, ast.Starred) for e in c.args) or any(k.arg is None for k in c.keywords)
                picked = [e for j, e in enumerate(c.args) if star or any(pos == j for pos, _ in hit)]
                picked += [k.value for k in c.keywords if k.arg != 'out' and (star or any(nm == k.arg for _, nm in hit))]
                for e in picked:
                    k_, x_ = self.root(e.value if isinstance(e, ast.Starred) else e)
                    if k_ == 'cache':
                        out.append(('inplace_cache', line))
                    elif k_ == 'var' and x_ in self.vars and x_ not in ('self', 'cls'):
                        out.append(('inplace', x_, line))
            if isinstance(f, ast.Attribute) and is_np(f.value) and f.attr in NP_INPLACE_FIRST and c.args:
                self.inplace_target(c.args[0], line, out)
            elif isinstance(f, ast.Attribute) and isinstance(f.value, ast.Attribute) and is_np(f.value.value) and f.attr == 'at' and c.args:
                self.inplace_target(c.args[0], line, out)       # np.add.at(x, ..)
            elif isinstance(f, ast.Attribute) and f.attr in MUTATING_METHODS and not is_np(f.value):
                k, x = self.root(f.value)
                if k == 'cache':
                    if not (x == 0 and f.attr in STORE_METHODS):
                        if not (f.attr in STORE_METHODS and self.only_container_subscripts(f.value)):
                            out.append(('inplace_cache', line))
                elif k == 'var' and x in self.vars:
                    out.append(('inplace', x, line))

    def only_container_subscripts(self, node):
        """self._cache[key].update(..): filling the (dict) entry that was just stored -- part of the store protocol of StateAttributeCacheHelper"""
        return isinstance(node, ast.Subscript) and self.is_cache_expr(node.value)

    def block(self, stmts):
        out = []
        for st in stmts:
            self.stmt(st, out)
        return out

    def stmt(self, st, out):
        line = st.lineno
        if isinstance(st, (ast.FunctionDef, ast.AsyncFunctionDef, ast.ClassDef, ast.Import, ast.ImportFrom, ast.Pass, ast.Global, ast.Nonlocal,
                           ast.Break, ast.Continue)):
            return
        if isinstance(st, ast.Assign):
            self.calls_effects(st.value, line, out)
            r = self.rhs(st.value)
            for t in st.targets:
                self.assign_target(t, r, st.value, line, out)
        elif isinstance(st, ast.AnnAssign):
            if st.value is not None:
                self.calls_effects(st.value, line, out)
                self.assign_target(st.target, self.rhs(st.value), st.value, line, out)
        elif isinstance(st, ast.AugAssign):
            self.calls_effects(st.value, line, out)
            self.inplace_target(st.target, line, out)
        elif isinstance(st, ast.Delete):
            for t in st.targets:
                if isinstance(t, (ast.Subscript, ast.Attribute)):
                    k, x = self.root(t)
                    if k == 'var' and x in self.vars:
                        out.append(('inplace', x, line))
        elif isinstance(st, ast.Expr):
            self.calls_effects(st.value, line, out)
        elif isinstance(st, ast.Return):
            if st.value is not None:
                self.calls_effects(st.value, line, out)
                r = self.rhs(st.value) if not isinstance(st.value, ast.Tuple) else None
                if r is None:
                    c, ys = False, []
                    for e in st.value.elts:
                        q = self.rhs(e)
                        c = c or q[0]
                        ys += [y for y in q[1] if y not in ys]
                    r = (c, ys)
                out.append(('return', r[0], list(r[1]), line))
            else:
                out.append(('return', False, [], line))
        elif isinstance(st, ast.If):
            self.calls_effects(st.test, line, out)
            out.append(('if', self.block(st.body), self.block(st.orelse), line))
        elif isinstance(st, (ast.For, ast.AsyncFor)):
            self.calls_effects(st.iter, line, out)
            body = []
            r = self.rhs(st.iter)
            if isinstance(st.iter, ast.Call) and isinstance(st.iter.func, ast.Name) and st.iter.func.id in ('zip', 'enumerate', 'reversed', 'sorted', 'list', 'iter'):
                r = self.unknown(st.iter)
            self.assign_target(st.target, r, None, line, body)
            body += self.block(st.body)
            out.append(('loop', body, line))
            out.extend(self.block(st.orelse))
        elif isinstance(st, ast.While):
            self.calls_effects(st.test, line, out)
            out.append(('loop', self.block(st.body), line))
            out.extend(self.block(st.orelse))
        elif isinstance(st, (ast.With, ast.AsyncWith)):
            for it in st.items:
                self.calls_effects(it.context_expr, line, out)
                if it.optional_vars is not None:
                    self.assign_target(it.optional_vars, self.unknown(it.context_expr), None, line, out)
            out.extend(self.block(st.body))
        elif isinstance(st, ast.Try):
            out.append(('if', self.block(st.body) + self.block(st.orelse), [], line))
            for h in st.handlers:
                out.append(('if', self.block(h.body), [], line))
            out.extend(self.block(st.finalbody))
        elif isinstance(st, (ast.Raise, ast.Assert)):
            for sub in ast.iter_child_nodes(st):
                self.calls_effects(sub, line, out)
        else:
            raise Unsupported('post-processing scan: statement %s at line %d' % (type(st).__name__, line))


def py_an(stmts, a, found):
    """the abstract interpretation of C05.Model.an, mirrored (used for the accessor fixpoint and for the comments only): returns the set of
    names that may alias a cache entry afterwards; appends (kind, line) to found for in-place sites and ('ret', line) for aliasing returns"""
    a = set(a)
    for st in stmts:
        k = st[0]
        if k == 'assign':
            _, x, c, ys, line = st
            if c or any(y in a for y in ys):
                a.add(x)
            else:
                a.discard(x)
        elif k == 'inplace':
            if st[1] in a:
                found.append(('inplace', st[2], st[1]))
        elif k == 'inplace_cache':
            found.append(('inplace', st[1], '<cache>'))
        elif k == 'return':
            if st[1] or any(y in a for y in st[2]):
                found.append(('ret', st[3], None))
        elif k == 'if':
            a = py_an(st[1], a, found) | py_an(st[2], a, found)
        elif k == 'loop':
            inv = set(a)
            for _ in range(4):
                inv |= py_an(st[1], inv, [])
            py_an(st[1], inv, found)
            a = inv
    return a


def all_functions(modules):
    """(rel, qualified name, FunctionDef, is_property, is_memoised) for every function, nested ones included"""
    out = []

    def walk(node, prefix, rel):
        for ch in ast.iter_child_nodes(node):
            if isinstance(ch, (ast.FunctionDef, ast.AsyncFunctionDef)):
                q = prefix + [ch.name]
                d = deco_names(ch)
                out.append((rel, '.'.join(q), ch, 'property' in d, 'memoize' in d))
                walk(ch, q, rel)
            elif isinstance(ch, ast.ClassDef):
                walk(ch, prefix + [ch.name], rel)
            else:
                walk(ch, prefix, rel)
    for rel in sorted(modules):
        walk(modules[rel], [], rel)
    return out


def own_body(fn):
    """the statements of fn without the bodies of nested functions (those are functions of their own)"""
    return fn.body


def post_table(modules):
    fns = all_functions(modules)

    # inter-procedural step (one level, by name): the functions that modify one of their own PARAMETERS in place (`values -= ..` on an
    # argument, `np.asarray(arg)` included).  A call of such a function with an argument that may alias a cache entry counts as an in-place
    # modification of that argument.  Generic container protocols are not followed by name.
    param_mutators = {}
    for rel, q, fn, is_prop, is_memo in fns:
        params = [a_.arg for a_ in fn.args.args + fn.args.kwonlyargs + fn.args.posonlyargs if a_.arg not in ('self', 'cls')]
        if not params or fn.name.startswith('__') or fn.name in MUTATING_METHODS or fn.name in FRESH_METHODS or fn.name in VIEW_METHODS:
            continue
        b = IRBuilder(fn, set(), set(), set())
        for a_ in ['self', 'cls'] + params:
            b.var(a_)
        for n in ast.walk(fn):
            if isinstance(n, ast.Name) and isinstance(n.ctx, (ast.Store, ast.Del)):
                b.var(n.id)
        try:
            ir0 = b.block(own_body(fn))
        except Unsupported:
            continue
        found0 = []
        py_an(ir0, set(params), found0)
        for f in found0:
            # py_an reports the name that is modified; it is a parameter, or a local that aliases one: attribute every hit to the parameters
            # it may alias is not tracked, so a hit on a local counts for every parameter (conservative)
            if f[0] == 'inplace' and f[2] != '<cache>':
                which = [f[2]] if f[2] in params else params
                for nm in which:
                    param_mutators.setdefault(fn.name, set()).add((params.index(nm), nm))

    def one_pass(accessors, props):
        rows = []
        for rel, q, fn, is_prop, is_memo in fns:
            cache_names = {'memo'} if rel == 'glue/core/decorators.py' else set()
            b = IRBuilder(fn, cache_names, accessors, props, param_mutators)
            for a_ in fn.args.args + fn.args.kwonlyargs + fn.args.posonlyargs:
                b.var(a_.arg)
            # every local name is known before right-hand sides are classified
            for n in ast.walk(fn):
                if isinstance(n, ast.Name) and isinstance(n.ctx, (ast.Store, ast.Del)):
                    b.var(n.id)
            ir = b.block(own_body(fn))

            def has_source(ss):
                return any((s[0] == 'assign' and s[2]) or s[0] == 'inplace_cache' or (s[0] == 'return' and s[1]) or
                           (s[0] == 'if' and (has_source(s[1]) or has_source(s[2]))) or (s[0] == 'loop' and has_source(s[1])) for s in ss)
            if not has_source(ir):
                continue
            found = []
            py_an(ir, set(), found)
            rows.append({'rel': rel, 'q': q, 'line': fn.lineno, 'ir': ir, 'vars': dict(b.vars), 'inplace': [f for f in found if f[0] == 'inplace'],
                         'ret_alias': any(f[0] == 'ret' for f in found), 'name': fn.name, 'is_prop': is_prop})
        return rows
    # level 1: the functions that hand out a cache expression itself (`return self._profile_cache`, `return memo[key]`, ...); their names,
    # together with the memoised function names, are the cache-returning accessors whose RESULTS count as cache entries in the final pass.
    # (One level only: following every function that returns the result of such an accessor by NAME reaches `copy`, `roi`, `transpose`, ...
    # of unrelated classes.  The property name `mask` -- FloodFillSubsetState.mask -- is also a plain attribute of MaskSubsetState and of
    # numpy masked arrays and is not followed.)
    level1 = one_pass(set(), set())
    accessors = set(SEED_ACCESSORS) | set(f[2].name for f in fns if f[4])
    props = set()
    for r in level1:
        if r['ret_alias'] and r['name'] not in ('wrapper', 'result', '__init__', 'mask'):
            (props if r['is_prop'] else accessors).add(r['name'])
    rows = one_pass(accessors, props)
    # a property name such as `mask` is also a plain attribute of unrelated classes: only follow property names that are unambiguous
    return rows, sorted(accessors), sorted(props), sorted(param_mutators)


# ------------------------------------------------------------------ memoize / clear_cache / clear_mask_caches, statement by statement
# glue/core/decorators.py: `memoize` (the statements before `def wrapper`, the whole body of `wrapper`, the statements after it), `clear_cache`,
# and glue/core/subset.py: `clear_mask_caches`, translated into the IR `mstmt` of Gen_memo.v whose semantics (coq/C05/Memo.v) is a heap of dict
# OBJECTS: the closure variable `memo` holds a reference, `wrapper.__memoize_cache` holds a reference, `{}` allocates a new object, `d.clear()`
# empties the object it is applied to.  Variables: 0 = memo (the closure cell shared by memoize and wrapper), 1 = key, 2 = result (locals of wrapper).
# Fail closed: any statement / expression outside the fragment below aborts the generation; an assignment to the closure variable inside wrapper
# is translated (it needs `nonlocal memo`, otherwise Python makes it a local and the translation aborts), and so is a size test `len(d) >= N`.
EXC = {'TypeError': 1, 'KeyError': 2, 'AttributeError': 3}
MVARS = {'memo': 0, 'key': 1, 'result': 2}
CACHE_ATTR = '__memoize_cache'


class MemoTranslator:
    def __init__(self, consts, ctx, nonlocals=(), inner=None, param=None):
        self.consts, self.ctx, self.nonlocals, self.inner, self.param = consts, ctx, set(nonlocals), inner, param

    def fail(self, node, why):
        raise Unsupported('memoize translation (%s, line %s): %s: %s' % (self.ctx, getattr(node, 'lineno', '?'), why, src(node)[:120]))

    def intconst(self, node):
        if isinstance(node, ast.Constant) and isinstance(node.value, int) and not isinstance(node.value, bool) and node.value >= 0:
            return node.value
        if isinstance(node, ast.Name) and node.id in self.consts:
            return self.consts[node.id]
        self.fail(node, 'not a non-negative integer constant')

    def expr(self, e):
        if isinstance(e, ast.Name):
            if e.id in MVARS and self.ctx != 'clear_cache':
                return 'MVar %d' % MVARS[e.id]
            self.fail(e, 'name outside the fragment')
        if isinstance(e, ast.Dict) and not e.keys:
            return 'MNewDict'
        if isinstance(e, ast.Call) and isinstance(e.func, ast.Name) and e.func.id == 'dict' and not e.args and not e.keywords:
            return 'MNewDict'
        if isinstance(e, ast.Call) and src(e).replace(' ', '') == '_make_key(args,kwargs)' and self.ctx == 'wrapper':
            return 'MMakeKey'
        if isinstance(e, ast.Call) and src(e).replace(' ', '') == 'func(*args,**kwargs)' and self.ctx == 'wrapper':
            return 'MCallFunc'
        if isinstance(e, ast.Subscript) and isinstance(e.ctx, ast.Load) and not isinstance(e.slice, ast.Slice):
            return 'MGetItem (%s) (%s)' % (self.expr(e.value), self.expr(e.slice))
        if isinstance(e, ast.Attribute) and e.attr == CACHE_ATTR and self.ctx == 'clear_cache' and isinstance(e.value, ast.Name) and e.value.id == self.param:
            return 'MFuncCache'
        if isinstance(e, ast.Compare) and len(e.ops) == 1 and isinstance(e.left, ast.Call) and isinstance(e.left.func, ast.Name) and \
                e.left.func.id == 'len' and len(e.left.args) == 1 and not e.left.keywords:
            d = self.expr(e.left.args[0])
            n = self.intconst(e.comparators[0])
            if isinstance(e.ops[0], ast.GtE):
                return 'MLenGe (%s) %d' % (d, n)
            if isinstance(e.ops[0], ast.Gt):
                return 'MLenGe (%s) %d' % (d, n + 1)
            self.fail(e, 'comparison operator')
        self.fail(e, 'expression outside the fragment')

    def block(self, stmts):
        out = []
        for st in stmts:
            t = self.stmt(st)
            if t is not None:
                out.append(t)
        return '[' + '; '.join(out) + ']'

    def stmt(self, st):
        if isinstance(st, ast.Expr) and isinstance(st.value, ast.Constant) and isinstance(st.value.value, str):
            return None
        if isinstance(st, ast.Pass):
            return 'MSPass'
        if isinstance(st, ast.Nonlocal):
            if self.ctx != 'wrapper' or any(n != 'memo' for n in st.names):
                self.fail(st, 'nonlocal of something else than the memo')
            return None          # recorded beforehand (self.nonlocals)
        if isinstance(st, ast.Assign) and len(st.targets) == 1:
            t = st.targets[0]
            if isinstance(t, ast.Name):
                if t.id == 'memo':
                    if self.ctx == 'wrapper' and 'memo' not in self.nonlocals:
                        self.fail(st, 'assignment makes `memo` a local of wrapper (no nonlocal)')
                    if self.ctx == 'clear_cache':
                        self.fail(st, 'assignment')
                    return 'MSAssign 0 (%s)' % self.expr(st.value)
                if t.id in ('key', 'result') and self.ctx == 'wrapper':
                    return 'MSAssign %d (%s)' % (MVARS[t.id], self.expr(st.value))
                self.fail(st, 'assignment to a name outside the fragment')
            if isinstance(t, ast.Subscript) and not isinstance(t.slice, ast.Slice):
                return 'MSSetItem (%s) (%s) (%s)' % (self.expr(t.value), self.expr(t.slice), self.expr(st.value))
            if isinstance(t, ast.Attribute) and t.attr == CACHE_ATTR and self.ctx == 'memoize' and isinstance(t.value, ast.Name) and t.value.id == self.inner:
                return 'MSSetCache (%s)' % self.expr(st.value)
            self.fail(st, 'assignment target')
        if isinstance(st, ast.Return) and st.value is not None and self.ctx == 'wrapper':
            return 'MSReturn (%s)' % self.expr(st.value)
        if isinstance(st, ast.Try) and not st.orelse and not st.finalbody and st.handlers:
            hs = []
            for h in st.handlers:
                if h.name is not None or not isinstance(h.type, ast.Name) or h.type.id not in EXC:
                    self.fail(h, 'handler')
                hs.append('MSHandler %d %s' % (EXC[h.type.id], self.block(h.body)))
            return 'MSTry %s [%s]' % (self.block(st.body), '; '.join(hs))
        if isinstance(st, ast.If):
            return 'MSIf (%s) %s %s' % (self.expr(st.test), self.block(st.body), self.block(st.orelse))
        if isinstance(st, ast.Expr) and isinstance(st.value, ast.Call) and isinstance(st.value.func, ast.Attribute) and st.value.func.attr == 'clear' and \
                not st.value.args and not st.value.keywords:
            return 'MSClear (%s)' % self.expr(st.value.func.value)
        self.fail(st, 'statement outside the fragment')


CLEAR_MASK_CACHES_TEMPLATE = """
def clear_mask_caches():
    classes = [SubsetState]
    while classes:
        cls = classes.pop()
        clear_cache(cls.__dict__.get('to_mask'))
        classes.extend(cls.__subclasses__())
"""


def memoize_programs(modules):
    tree = modules.get('glue/core/decorators.py')
    if tree is None:
        raise Unsupported('glue/core/decorators.py not found')
    consts = {}
    for st in tree.body:
        if isinstance(st, ast.Assign) and len(st.targets) == 1 and isinstance(st.targets[0], ast.Name) and isinstance(st.value, ast.Constant) and \
                isinstance(st.value.value, int) and not isinstance(st.value.value, bool) and st.value.value >= 0:
            consts[st.targets[0].id] = st.value.value
    fns = {f.name: f for f in tree.body if isinstance(f, ast.FunctionDef)}
    mz, cc = fns.get('memoize'), fns.get('clear_cache')
    if mz is None or cc is None:
        raise Unsupported('memoize / clear_cache not found in glue/core/decorators.py')
    if [a.arg for a in mz.args.args] != ['func'] or mz.args.vararg or mz.args.kwarg or mz.decorator_list:
        raise Unsupported('memoize: signature')
    inner = [k for k, st in enumerate(mz.body) if isinstance(st, ast.FunctionDef)]
    if len(inner) != 1:
        raise Unsupported('memoize: expected exactly one nested function')
    k = inner[0]
    w = mz.body[k]
    a = w.args
    if a.args or a.kwonlyargs or a.posonlyargs or a.defaults or not a.vararg or a.vararg.arg != 'args' or not a.kwarg or a.kwarg.arg != 'kwargs':
        raise Unsupported('memoize.%s: signature is not (*args, **kwargs)' % w.name)
    if [src(d).replace(' ', '') for d in w.decorator_list] != ['wraps(func)']:
        raise Unsupported('memoize.%s: decorators' % w.name)
    last = mz.body[-1]
    if not (isinstance(last, ast.Return) and isinstance(last.value, ast.Name) and last.value.id == w.name):
        raise Unsupported('memoize does not end in `return %s`' % w.name)
    nonlocals = [n for st in ast.walk(w) if isinstance(st, ast.Nonlocal) for n in st.names]
    if any(isinstance(n, (ast.Global, ast.Lambda, ast.FunctionDef, ast.ClassDef, ast.ListComp, ast.DictComp, ast.GeneratorExp)) for st in w.body for n in ast.walk(st)):
        raise Unsupported('memoize.%s: nested scope / global' % w.name)
    pre = MemoTranslator(consts, 'memoize', inner=w.name).block(mz.body[:k])
    post = MemoTranslator(consts, 'memoize', inner=w.name).block(mz.body[k + 1:-1])
    body = MemoTranslator(consts, 'wrapper', nonlocals=nonlocals).block(w.body)
    if [x.arg for x in cc.args.args] != ['func'] or cc.args.vararg or cc.args.kwarg or cc.decorator_list:
        raise Unsupported('clear_cache: signature')
    clear = MemoTranslator(consts, 'clear_cache', param='func').block(cc.body)
    # the handle may be touched nowhere else
    n_attr = 0
    for rel, t in modules.items():
        for n in ast.walk(t):
            if (isinstance(n, ast.Attribute) and n.attr == CACHE_ATTR) or (isinstance(n, ast.Constant) and isinstance(n.value, str) and CACHE_ATTR in n.value
                                                                           and rel != 'glue/core/decorators.py'):
                n_attr += 1
                if rel != 'glue/core/decorators.py':
                    raise Unsupported('%s is used outside glue/core/decorators.py (%s)' % (CACHE_ATTR, rel))
    if n_attr != 2:
        raise Unsupported('%s: expected one binding in memoize and one read in clear_cache, found %d uses' % (CACHE_ATTR, n_attr))
    # clear_mask_caches: the work-list walk over the class tree, clear_cache on every class's own to_mask -- exact form or 0
    walk = 0
    st_tree = modules.get('glue/core/subset.py')
    if st_tree is not None:
        cm = [f for f in st_tree.body if isinstance(f, ast.FunctionDef) and f.name == 'clear_mask_caches']
        if len(cm) == 1:
            body_ = [st for st in cm[0].body if not (isinstance(st, ast.Expr) and isinstance(st.value, ast.Constant) and isinstance(st.value.value, str))]
            tmpl = ast.parse(CLEAR_MASK_CACHES_TEMPLATE).body[0]
            if (ast.dump(ast.Module(body=body_, type_ignores=[])) == ast.dump(ast.Module(body=tmpl.body, type_ignores=[])) and
                    ast.dump(cm[0].args) == ast.dump(tmpl.args) and not cm[0].decorator_list):
                # clear_cache must be THE clear_cache of decorators.py in that module
                imp = [n for n in st_tree.body if isinstance(n, ast.ImportFrom) and n.module == 'glue.core.decorators' and
                       any(al.name == 'clear_cache' and al.asname is None for al in n.names)]
                redefined = [n for n in st_tree.body if isinstance(n, (ast.FunctionDef, ast.ClassDef)) and n.name == 'clear_cache']
                if imp and not redefined:
                    walk = 1
    return pre, body, post, clear, walk



def ir_coq(ss, vars_):
    out = []
    for s in ss:
        k = s[0]
        if k == 'assign':
            out.append('SAssign %d %s [%s]' % (vars_[s[1]], 'true' if s[2] else 'false', '; '.join(str(vars_[y]) for y in s[3])))
        elif k == 'inplace':
            out.append('SInplace %d' % vars_[s[1]])
        elif k == 'inplace_cache':
            out.append('SInplaceCache')
        elif k == 'return':
            out.append('SReturn %s [%s]' % ('true' if s[1] else 'false', '; '.join(str(vars_[y]) for y in s[2])))
        elif k == 'if':
            out.append('SIf [%s] [%s]' % (ir_coq(s[1], vars_), ir_coq(s[2], vars_)))
        elif k == 'loop':
            out.append('SLoop [%s]' % ir_coq(s[1], vars_))
    return '; '.join(out)


def generate(out_path):
    fam, modules = scan()
    names = ['SubsetState'] + sorted(n for n in fam if n != 'SubsetState')
    idx = {n: i for i, n in enumerate(names)}
    rows = []
    for n in names:
        d = resolve(fam, n, 'to_mask')
        fn = class_body_fn(fam[d], 'to_mask')
        memo = 'memoize' in deco_names(fn)
        kind, detail = kind_of(fam, n)
        cp = resolve(fam, n, 'copy')
        if cp is None:
            raise Unsupported('no copy() found for ' + n)
        rows.append((idx[n], idx[fam[n]['parent']], idx[d], memo, kind, detail, n, fam[n]['module'], fam[n]['line'], idx[cp]))
    sites, helpers = clear_sites(modules)
    # policy of a mutation path: per function the strongest clearing on it (and whether that one precedes the
    # broadcast); over the functions that implement the path the weakest.  move_to (path 3) is implemented by every
    # class of the family that defines a move_to other than the base no-op: a definition without clearing makes
    # the path unprotected.
    per_fn = {}
    for st in sites:
        k = (st['path'], st['fn'])
        cur = per_fn.get(k)
        if st['scope'] == 99:
            per_fn[k] = (-1, False, False)
        elif cur is None or (cur[0] >= 0 and st['scope'] > cur[0]) or (
                cur[0] >= 0 and st['scope'] == cur[0] and (st['before'], st['uncond']) > (cur[1], cur[2])):
            per_fn[k] = (st['scope'], st['before'], st['uncond'])
    moveto_defs = [(fam[n]['module'], n, 'move_to') for n in names if n != 'SubsetState' and class_body_fn(fam[n], 'move_to') is not None]
    setattr_defs = [(fam['SubsetState']['module'], 'SubsetState', '__setattr__')]
    policy = {}
    for path in sorted(set(PATHS.values())):
        fns = [fnk for (pp, fnk) in per_fn if pp == path]
        required = list(fns)
        if path == 3:
            required = sorted(set(fns) | set(moveto_defs))
        if path == 2:
            required = sorted(set(fns) | set(setattr_defs))
        if not required:
            continue
        vals = [per_fn.get((path, fnk)) for fnk in required]
        if any(v is None or v[0] < 0 for v in vals):
            continue
        policy[path] = (min(v[0] for v in vals), all(v[1] for v in vals), all(v[2] for v in vals))
    t = []
    t.append('(* REGENERATED by tools/gen/gen_memo.py from the working tree of glue -- do not edit.')
    t.append('   class table of the SubsetState family (memoised to_mask definitions, composite operators)')
    t.append('   and the cache-clearing sites of the mutation paths. *)')
    t.append('From Coq Require Import List Bool Arith.')
    t.append('Import ListNotations.')
    t.append('')
    t.append('Record cls := { c_idx : nat; c_parent : nat; c_def : nat; c_memo : bool; c_kind : nat; c_detail : nat; c_copy : nat }.')
    t.append('Record site := { s_path : nat; s_scope : nat; s_before : bool; s_uncond : bool }.')
    t.append('')
    t.append('Definition classes : list cls := [')
    for k, r in enumerate(rows):
        t.append('  {| c_idx := %d; c_parent := %d; c_def := %d; c_memo := %s; c_kind := %d; c_detail := %d; c_copy := %d |}%s  (* %s  %s:%d *)' % (
            r[0], r[1], r[2], 'true' if r[3] else 'false', r[4], r[5], r[9], ';' if k + 1 < len(rows) else '', r[6], r[7], r[8]))
    t.append('].')
    t.append('')
    for n in names:
        t.append('Definition cls_%s : nat := %d.' % (n, idx[n]))
    t.append('')
    t.append('Definition clear_sites : list site := [')
    for k, s in enumerate(sites):
        t.append('  {| s_path := %d; s_scope := %d; s_before := %s; s_uncond := %s |}%s  (* %s *)' % (
            s['path'], s['scope'], 'true' if s['before'] else 'false', 'true' if s['uncond'] else 'false',
            ';' if k + 1 < len(sites) else '', s['where']))
    t.append('].')
    t.append('')
    t.append('(* lookups used by the models *)')
    t.append('Definition find_cls (c : nat) : option cls := find (fun r => Nat.eqb (c_idx r) c) classes.')
    t.append('(* Some f : the class evaluates through the memoised function cache f (= index of the defining class) *)')
    t.append('Definition memo_of (c : nat) : option nat :=')
    t.append('  match find_cls c with Some r => if c_memo r then Some (c_def r) else None | None => None end.')
    t.append('Definition kind_of (c : nat) : nat := match find_cls c with Some r => c_kind r | None => 99 end.')
    t.append('Definition detail_of (c : nat) : nat := match find_cls c with Some r => c_detail r | None => 0 end.')
    t.append('(* the function caches that exist *)')
    t.append('Definition memo_fns : list nat := map c_idx (filter (fun r => c_memo r && Nat.eqb (c_def r) (c_idx r)) classes).')
    t.append('(* policy of a mutation path (0 update_components, 1 update_values_from_data, 2 attribute assignment on a state,')
    t.append('   3 move_to, 4 links / externally derivable components, 5 pixel-aligned datasets, 6 remove_component,')
    t.append('   7 add_component replacing an existing attribute): (path, scope, before the broadcast);')
    t.append('   a path that is not listed clears nothing *)')
    t.append('Definition path_policy : list (nat * nat * bool) := [')
    items = sorted(policy.items())
    for k, (pth, (sc, bf, un)) in enumerate(items):
        t.append('  (%d, %d, %s)%s' % (pth, sc, 'true' if bf else 'false', ';' if k + 1 < len(items) else ''))
    t.append('].')
    t.append('(* is the clearing on the path executed whenever the mutating statement is (true), or only under a further condition (false) *)')
    t.append('Definition path_uncond : list (nat * bool) := [')
    for k, (pth, (sc, bf, un)) in enumerate(items):
        t.append('  (%d, %s)%s' % (pth, 'true' if un else 'false', ';' if k + 1 < len(items) else ''))
    t.append('].')
    t.append('Definition uncond_of (p : nat) : bool :=')
    t.append('  match find (fun r => Nat.eqb (fst r) p) path_uncond with Some r => snd r | None => false end.')
    plain, wrapper_ok = memo_key_facts(modules)
    t.append('(* glue/core/decorators.py: 1 = `_make_key` is exactly (args, frozenset(kwargs.items())) -- arguments enter the key as they are,')
    t.append('   so list / array views are unhashable and bypass the cache, tuples and lists never share an entry; 1 = `memoize` is the')
    t.append('   look-up / compute-and-store wrapper with the plain call for unhashable keys *)')
    t.append('Definition memo_key_plain : nat := %d.' % plain)
    t.append('Definition memo_wrapper_plain : nat := %d.' % wrapper_ok)
    t.append('(* HistogramLayerState.update_histogram: fields of the cache key (1 id(x_att) 2 x_log 3 hist_x_min 4 hist_x_max 5 hist_n_bin 9 other) *)')
    t.append('Definition hist_key_fields : list nat := [%s].' % '; '.join(str(k) for k in hist_key_fields(modules)))
    t.append('(* FloodFillSubsetState.mask recomputes when: 1 = the parameters differ OR data[att] is not the array the mask was computed from;')
    t.append('   0 = the parameters differ (values never looked at); 9 = some other test *)')
    t.append('Definition floodfill_key : nat := %d.' % floodfill_key(modules))
    t.append('Definition find_policy (p : nat) : option (nat * nat * bool) := find (fun r => Nat.eqb (fst (fst r)) p) path_policy.')
    t.append('Definition scope_of (p : nat) : option nat := match find_policy p with Some r => Some (snd (fst r)) | None => None end.')
    t.append('Definition before_of (p : nat) : bool := match find_policy p with Some r => snd r | None => true end.')
    prows, accessors, props, pmut = post_table(modules)
    t.append('')
    t.append('(* ---- post-processing of cached values (see the header of the scan in tools/gen/gen_memo.py): every function that reads a cache')
    t.append('   entry, as a program over its local names.  SAssign x c ys: x is bound to something that may share memory with a cache entry (c) or')
    t.append('   with what the names ys hold; SInplace x: x is modified in place; SInplaceCache: a cache expression is modified in place. *)')
    t.append('Inductive pstmt :=')
    t.append('| SAssign (x : nat) (c : bool) (ys : list nat)')
    t.append('| SInplace (x : nat)')
    t.append('| SInplaceCache')
    t.append('| SReturn (c : bool) (ys : list nat)')
    t.append('| SIf (a b : list pstmt)')
    t.append('| SLoop (a : list pstmt).')
    t.append('(* cache-returning accessors followed by the scan: %s ; properties: %s *)' % (', '.join(accessors), ', '.join(props)))
    t.append('(* functions that modify one of their own parameters in place (a call with an argument that may alias a cache entry is an in-place')
    t.append('   modification of it): %d functions *)' % len(pmut))
    t.append('Definition post_fns : list (nat * list pstmt) := [')
    for k, r in enumerate(prows):
        t.append('  (%d, [%s])%s  (* %s:%s:%d%s%s *)' % (
            k, ir_coq(r['ir'], r['vars']), ';' if k + 1 < len(prows) else '', r['rel'], r['q'], r['line'],
            '  returns-cache-alias' if r['ret_alias'] else '',
            ''.join('  IN-PLACE line %d on %s' % (f[1], f[2]) for f in r['inplace'])))
    t.append('].')
    hist = [k for k, r in enumerate(prows) if r['rel'] == 'glue/viewers/histogram/state.py' and r['q'] == 'HistogramLayerState.histogram']
    prof = [k for k, r in enumerate(prows) if r['rel'] == 'glue/viewers/profile/state.py' and r['q'] == 'ProfileLayerState.profile']
    memo = [k for k, r in enumerate(prows) if r['rel'] == 'glue/core/decorators.py' and r['q'] == 'memoize.wrapper']
    frb = [k for k, r in enumerate(prows) if r['rel'] == 'glue/core/fixed_resolution_buffer.py' and r['q'] == 'compute_fixed_resolution_buffer']
    t.append('(* rows the theorems name: HistogramLayerState.histogram, ProfileLayerState.profile, memoize.wrapper, compute_fixed_resolution_buffer (999 = not found) *)')
    t.append('Definition post_fn_frb : nat := %d.' % (frb[0] if len(frb) == 1 else 999))
    t.append('Definition post_fn_histogram : nat := %d.' % (hist[0] if len(hist) == 1 else 999))
    t.append('Definition post_fn_profile : nat := %d.' % (prof[0] if len(prof) == 1 else 999))
    t.append('Definition post_fn_memoize : nat := %d.' % (memo[0] if len(memo) == 1 else 999))
    pre, wbody, post, clear, walk = memoize_programs(modules)
    t.append('')
    t.append('(* ---- glue/core/decorators.py memoize / clear_cache and glue/core/subset.py clear_mask_caches, statement by statement (semantics: coq/C05/Memo.v,')
    t.append('   a heap of dict objects).  Variables: 0 = memo (closure cell of memoize, shared with wrapper), 1 = key, 2 = result.  Exception classes:')
    t.append('   1 TypeError 2 KeyError 3 AttributeError. *)')
    t.append('Inductive mexpr :=')
    t.append('| MVar (x : nat)')
    t.append('| MNewDict                        (* {} : a NEW dict object *)')
    t.append('| MMakeKey                        (* _make_key(args, kwargs) *)')
    t.append('| MCallFunc                       (* func( *args, **kwargs) *)')
    t.append('| MGetItem (d k : mexpr)          (* d[k] *)')
    t.append('| MLenGe (d : mexpr) (n : nat)    (* len(d) >= n *)')
    t.append('| MFuncCache.                     (* func.__memoize_cache (clear_cache) *)')
    t.append('Inductive mstmt :=')
    t.append('| MSAssign (x : nat) (e : mexpr)')
    t.append('| MSSetItem (d k v : mexpr)       (* d[k] = v *)')
    t.append('| MSReturn (e : mexpr)')
    t.append('| MSTry (body : list mstmt) (handlers : list mstmt)')
    t.append('| MSHandler (c : nat) (body : list mstmt)')
    t.append('| MSIf (c : mexpr) (a b : list mstmt)')
    t.append('| MSClear (d : mexpr)             (* d.clear() *)')
    t.append('| MSSetCache (e : mexpr)          (* wrapper.__memoize_cache = e *)')
    t.append('| MSPass.')
    t.append('(* memoize: the statements before `def wrapper`, the body of wrapper, the statements between it and `return wrapper` *)')
    t.append('Definition memoize_pre : list mstmt := %s.' % pre)
    t.append('Definition memoize_wrapper : list mstmt :=\n  %s.' % wbody)
    t.append('Definition memoize_post : list mstmt := %s.' % post)
    t.append('Definition clear_cache_body : list mstmt := %s.' % clear)
    t.append('(* clear_mask_caches: 1 = exactly the work-list walk `classes = [SubsetState]; while classes: cls = classes.pop(); clear_cache(cls.__dict__.get(\'to_mask\'));')
    t.append('   classes.extend(cls.__subclasses__())` with clear_cache imported from glue.core.decorators, i.e. clear_cache on every class\'s own to_mask; 0 = anything else *)')
    t.append('Definition clear_mask_caches_walk : nat := %d.' % walk)
    text = '\n'.join(t) + '\n'
    if not os.path.exists(out_path) or open(out_path).read() != text:
        tmp = out_path + '.tmp'
        with open(tmp, 'w') as f:
            f.write(text)
        os.replace(tmp, out_path)
    return rows, sites


if __name__ == '__main__':
    out = sys.argv[1] if len(sys.argv) > 1 else os.path.join(os.path.dirname(os.path.dirname(HERE)), 'coq/gen/Gen_memo.v')
    try:
        rows, sites = generate(out)
    except Unsupported as e:
        print('TRANSLATION-FAILED: %s' % e)
        sys.exit(3)
    print('ok', out, '%d classes, %d memoised, %d clear sites' % (len(rows), sum(1 for r in rows if r[3]), len(sites)))
