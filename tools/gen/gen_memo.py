#!/usr/bin/env python3
"""
Regenerate coq/gen/Gen_memo.v from the *current* source of glue (ast scan only, nothing is imported).

What is extracted (properties C01 and C05):

  (c_copy: the class whose body defines the copy() a class uses; 0 = the base SubsetState.copy, which returns an EMPTY selection)
  classes      every class that derives (transitively, by base-class name) from `SubsetState`, in any
               non-test module under glue/ : its parent, the class whose body defines the `to_mask`
               it uses (single inheritance walk), whether that definition carries `@memoize`
               (=> the function cache it shares), and its kind:
                    0 elementary   1 and   2 or   3 xor   (from `op = operator.and_ / or_ / xor` in the class body)
                    4 invert (to_mask returns `~ self.state1.to_mask(...)`)
                    5 n-ary or (to_mask: copy of the first child's mask, then `result |= child mask` in a loop)
                    6 abstract composite (CompositeSubsetState itself, op = None)
               plus whether the n-ary or copies its first mask (`.copy()` present) and which child the
               invert negates (state1 / state2).
  clear sites  every call `clear_cache(...)` in non-test modules: the mutation path it is on, its scope
                    0 = the function cache of the top-level state's to_mask of each attached subset
                        (`for subset in self.subsets: clear_cache(subset.subset_state.to_mask)`)
                    1 = the function caches of every state reachable from each attached subset's state
                    2 = every to_mask function cache of every SubsetState class
               and whether it happens before the first `hub.broadcast(` of the function.
               A clear site of scope 2 is recognised through a module-level helper function whose body
               walks `__subclasses__()` and calls `clear_cache(<cls>.to_mask)` (or .__dict__['to_mask']);
               scope 1 through a helper that recurses over `state1` / `state2` / `states`.
               Anything else fails closed (scope 99 = unknown, which no theorem accepts).
  mutation paths (fixed numbering, used by C05's model):
                    0 Data.update_components          1 Data.update_values_from_data
                    2 SubsetState attribute assignment (`SubsetState.__setattr__`)
                    3 RoiSubsetStateNd.move_to (in-place move of the ROI object)
                    4 Data._set_externally_derivable_components (links added / removed)   5 Data._set_pixel_aligned_data
                    6 Data.remove_component   7 Data.add_component (replacing the values behind an existing attribute)
               every site also records whether it is UNCONDITIONAL: executed whenever the mutating statement of its function is
               (same or enclosing block, after it, no return in between); a call under a further `if` is conditional
"""
import ast
import os
import sys

HERE = os.path.dirname(os.path.abspath(__file__))
REPO = os.environ.get('GLUE_REPO', '/repo')


class Unsupported(Exception):
    pass


def py_files():
    root = os.path.join(REPO, 'glue')
    for dp, dn, fn in os.walk(root):
        dn[:] = sorted(d for d in dn if d not in ('tests', '__pycache__'))
        for f in sorted(fn):
            if f.endswith('.py') and not f.startswith('test_'):
                yield os.path.join(dp, f)


def base_name(b):
    if isinstance(b, ast.Name):
        return b.id
    if isinstance(b, ast.Attribute):
        return b.attr
    return None


def deco_names(fn):
    out = []
    for d in fn.decorator_list:
        if isinstance(d, ast.Call):
            d = d.func
        n = base_name(d)
        if n:
            out.append(n)
    return out


def src(node):
    return ast.unparse(node)


def scan():
    classes = {}      # name -> dict
    modules = {}
    for path in py_files():
        try:
            tree = ast.parse(open(path).read())
        except SyntaxError as e:  # pragma: no cover
            raise Unsupported('cannot parse %s: %s' % (path, e))
        rel = os.path.relpath(path, REPO)
        modules[rel] = tree
        for node in ast.walk(tree):
            if isinstance(node, ast.ClassDef):
                info = {'name': node.name, 'module': rel, 'bases': [base_name(b) for b in node.bases], 'node': node,
                        'line': node.lineno}
                classes.setdefault(node.name, []).append(info)
    # the SubsetState family
    if 'SubsetState' not in classes or len(classes['SubsetState']) != 1:
        raise Unsupported('expected exactly one class SubsetState')
    fam = {'SubsetState': classes['SubsetState'][0]}
    changed = True
    while changed:
        changed = False
        for name, infos in classes.items():
            for info in infos:
                if name in fam:
                    continue
                inb = [b for b in info['bases'] if b in fam]
                if inb:
                    if len(infos) != 1:
                        raise Unsupported('two classes named %s, one of them a SubsetState' % name)
                    if len(inb) != 1:
                        raise Unsupported('class %s has several SubsetState bases' % name)
                    info['parent'] = inb[0]
                    fam[name] = info
                    changed = True
    fam['SubsetState']['parent'] = 'SubsetState'
    return fam, modules


def class_body_fn(info, name):
    for n in info['node'].body:
        if isinstance(n, ast.FunctionDef) and n.name == name:
            return n
    return None


def class_attr(info, name):
    for n in info['node'].body:
        if isinstance(n, ast.Assign) and len(n.targets) == 1 and isinstance(n.targets[0], ast.Name) and n.targets[0].id == name:
            return n.value
    return None


def resolve(fam, cname, what):
    """class of the family whose body defines `what` (function or attribute) for cname"""
    seen = set()
    c = cname
    while True:
        if c in seen:
            raise Unsupported('inheritance cycle at ' + c)
        seen.add(c)
        info = fam[c]
        if what == 'to_mask' and class_body_fn(info, 'to_mask') is not None:
            return c
        if what == 'op' and class_attr(info, 'op') is not None:
            return c
        if what == 'copy' and class_body_fn(info, 'copy') is not None:
            return c
        if c == 'SubsetState':
            return None
        c = info['parent']


OPS = {'and_': 1, 'or_': 2, 'xor': 3}


def kind_of(fam, cname):
    """(kind, detail) ; detail: invert -> 1/2 = negated child ; n-ary or -> 1 if first mask copied else 0"""
    d = resolve(fam, cname, 'to_mask')
    fn = class_body_fn(fam[d], 'to_mask')
    text = src(fn)
    opc = resolve(fam, cname, 'op')
    composite = False
    c = cname
    while c != 'SubsetState':
        if c == 'CompositeSubsetState':
            composite = True
        c = fam[c]['parent']
    if composite:
        # invert: its own to_mask returning ~child
        rets = [n for n in ast.walk(fn) if isinstance(n, ast.Return)]
        if d != 'CompositeSubsetState':
            if len(rets) == 1 and isinstance(rets[0].value, ast.UnaryOp) and isinstance(rets[0].value.op, ast.Invert):
                inner = src(rets[0].value.operand)
                if inner.startswith('self.state1.to_mask('):
                    return 4, 1
                if inner.startswith('self.state2.to_mask('):
                    return 4, 2
            raise Unsupported('composite class %s overrides to_mask in a way the scanner does not know: %s' % (cname, text[:200]))
        # generic composite: self.op(state1 mask, state2 mask)
        if len(rets) != 1 or not src(rets[0].value).replace(' ', '').replace('\n', '').startswith(
                'self.op(self.state1.to_mask(data,view),self.state2.to_mask(data,view))'):
            raise Unsupported('CompositeSubsetState.to_mask is not `self.op(state1 mask, state2 mask)`: ' + text[:300])
        v = class_attr(fam[opc], 'op')
        if isinstance(v, ast.Constant) and v.value is None:
            return 6, 0
        if isinstance(v, ast.Attribute) and base_name(v.value) == 'operator' and v.attr in OPS:
            return OPS[v.attr], 0
        raise Unsupported('class %s: op = %s not understood' % (cname, src(v)))
    if cname == 'MultiOrState' or fam[cname]['parent'] == 'MultiOrState':
        t = text.replace(' ', '')
        if 'result|=state.to_mask(data,view=view)' not in t or 'forstateinself.states[1:]' not in t:
            raise Unsupported('MultiOrState.to_mask shape not understood: ' + text[:300])
        if 'result=self.states[0].to_mask(data,view=view).copy()' in t:
            return 5, 1
        if 'result=self.states[0].to_mask(data,view=view)' in t:
            return 5, 0
        raise Unsupported('MultiOrState.to_mask first statement not understood: ' + text[:300])
    return 0, 0


PATHS = {'update_components': 0, 'update_values_from_data': 1, '__setattr__': 2, 'move_to': 3,
         '_set_externally_derivable_components': 4, '_set_pixel_aligned_data': 5,
         'remove_component': 6, 'add_component': 7}

# the statements that ARE the mutation on each path (prefix of the unparsed statement).  A clearing call counts as
# unconditional only if it is executed whenever every one of these statements of the function is executed: it must sit
# in the same block as the mutating statement or in a block that encloses it, and after it.  A call nested under an `if`
# (or loop / try / with) that does not also contain the mutation is "conditional" and does not cover the path.
MUTATORS = {0: ['comp._data ='], 1: ['comp_old._data =', 'self._shape ='],
            2: ['object.__setattr__('],
            3: ['self._roi.move_to(', 'self.lo =', 'self.hi =', 'self.state1.move_to(', 'self.state2.move_to('],
            4: ['self._externally_derivable_components ='], 5: ['self._pixel_aligned_data ='],
            6: ['self._components.pop('], 7: ['self._components[component_id] =']}


def block_paths(fn):
    """statement node -> tuple of ids of the enclosing compound statements (with the branch name), innermost last"""
    out = {}

    def walk(stmts, path):
        for st in stmts:
            out[id(st)] = (path, st)
            for field in ('body', 'orelse', 'finalbody', 'handlers'):
                sub = getattr(st, field, None)
                if isinstance(sub, list) and sub and not isinstance(st, (ast.FunctionDef, ast.ClassDef)):
                    if field == 'handlers':
                        for h in sub:
                            walk(h.body, path + ((id(st), 'handler%d' % id(h)),))
                    else:
                        walk(sub, path + ((id(st), field),))
    walk(fn.body, ())
    return out


def stmt_of(fn, node, bp):
    """the statement of fn (as registered in bp) that contains the expression node"""
    best = None
    for path, st in bp.values():
        if any(n is node for n in ast.walk(st)):
            if best is None or len(path) > len(best[0]):
                best = (path, st)
    return best


def is_unconditional(fn, call, path_no):
    bp = block_paths(fn)
    here = stmt_of(fn, call, bp)
    if here is None:
        return False
    cpath, cst = here
    # the call must be a statement of its own (not an operand of something else)
    if not (isinstance(cst, ast.Expr) and cst.value is call):
        return False
    muts = []
    for mpath, st in bp.values():
        if isinstance(st, (ast.If, ast.For, ast.While, ast.Try, ast.With)):
            continue
        text = src(st)
        if any(text.startswith(pref) for pref in MUTATORS.get(path_no, [])):
            muts.append((mpath, st))
    if not muts:
        return False
    for mpath, st in muts:
        if mpath[:len(cpath)] != cpath or st.lineno >= cst.lineno:
            return False
    # no return between the last mutation and the call, in the call's own block or the blocks of the mutations
    last = max(st.lineno for _, st in muts)
    for _, st in bp.values():
        if isinstance(st, ast.Return) and last < st.lineno < cst.lineno:
            return False
    return True


def helper_scopes(modules):
    """module-level functions that clear caches: name -> scope"""
    out = {}
    for rel, tree in modules.items():
        for fn in tree.body:
            if not isinstance(fn, ast.FunctionDef):
                continue
            calls = [n for n in ast.walk(fn) if isinstance(n, ast.Call) and base_name(n.func) == 'clear_cache']
            if not calls or fn.name == 'clear_cache':
                continue
            text = src(fn)
            transitive = (any(isinstance(w, ast.While) and '__subclasses__()' in src(w) and ('.extend(' in src(w) or '.append(' in src(w))
                              for w in ast.walk(fn)) or
                          any(isinstance(n, ast.Call) and base_name(n.func) == fn.name for n in ast.walk(fn)))
            if '__subclasses__()' in text and 'SubsetState' in text and all('to_mask' in src(c) for c in calls) and transitive:
                out[fn.name] = 2
            elif ('state1' in text and 'state2' in text and 'states' in text and
                  any(isinstance(n, ast.Call) and base_name(n.func) == fn.name for n in ast.walk(fn))):
                out[fn.name] = 1
            else:
                out[fn.name] = 99
    return out


def clear_sites(modules):
    helpers = helper_scopes(modules)
    sites = []
    for rel, tree in modules.items():
        for cls in [n for n in ast.walk(tree) if isinstance(n, ast.ClassDef)]:
            for fn in cls.body:
                if not isinstance(fn, ast.FunctionDef):
                    continue
                bl = [n.lineno for n in ast.walk(fn) if isinstance(n, ast.Call) and src(n.func).endswith('hub.broadcast')]
                first_b = min(bl) if bl else None
                for n in ast.walk(fn):
                    if not isinstance(n, ast.Call):
                        continue
                    name = base_name(n.func)
                    scope = None
                    if name == 'clear_cache':
                        arg = src(n.args[0]) if n.args else ''
                        if arg == 'subset.subset_state.to_mask' and 'for subset in self.subsets' in src(fn):
                            scope = 0
                        else:
                            scope = 99
                    elif name in helpers:
                        scope = helpers[name]
                        if scope == 1 and not (n.args and src(n.args[0]) == 'subset.subset_state'):
                            scope = 99
                    if scope is None:
                        continue
                    path = PATHS.get(fn.name, 99)
                    before = first_b is None or n.lineno < first_b
                    uncond = scope == 0 or is_unconditional(fn, n, path)
                    sites.append({'where': '%s:%s.%s:%d' % (rel, cls.name, fn.name, n.lineno), 'path': path,
                                  'scope': scope, 'before': before, 'fn': (rel, cls.name, fn.name), 'uncond': uncond})
    sites.sort(key=lambda s: s['where'])
    return sites, helpers


def memo_key_facts(modules):
    """decorators.py: is the memo key the plain (args, frozenset(kwargs.items())), and is `memoize` the wrapper the model describes
    (look up, else compute and store; unhashable key -> plain call)?  1 = yes, 0 = anything else (fail closed)"""
    tree = modules.get('glue/core/decorators.py')
    if tree is None:
        return 0, 0
    fns = {f.name: f for f in tree.body if isinstance(f, ast.FunctionDef)}
    plain = 0
    mk = fns.get('_make_key')
    if mk is not None:
        body = [st for st in mk.body if not (isinstance(st, ast.Expr) and isinstance(st.value, ast.Constant))]
        if (len(body) == 1 and isinstance(body[0], ast.Return) and
                src(body[0].value).replace(' ', '') in ('(args,frozenset(kwargs.items()))', 'args,frozenset(kwargs.items())') and
                [a.arg for a in mk.args.args] == ['args', 'kwargs']):
            plain = 1
    # nothing else in the module may feed the key
    wrapper_ok = 0
    mz = fns.get('memoize')
    if mz is not None:
        t = src(mz).replace(' ', '')
        if ('key=_make_key(args,kwargs)' in t and 'returnmemo[key]' in t and 'memo[key]=result' in t and
                t.count('_make_key(') == 1 and 'result=func(*args,**kwargs)' in t):
            wrapper_ok = 1
    return plain, wrapper_ok


HIST_FIELDS = {'id(self.viewer_state.x_att)': 1, 'self.viewer_state.x_log': 2, 'self.viewer_state.hist_x_min': 3,
               'self.viewer_state.hist_x_max': 4, 'self.viewer_state.hist_n_bin': 5}


def hist_key_fields(modules):
    """HistogramLayerState.update_histogram: the fields of the cache key `current_settings = (...)`, coded
    1 id(x_att) 2 x_log 3 hist_x_min 4 hist_x_max 5 hist_n_bin, 9 anything else"""
    tree = modules.get('glue/viewers/histogram/state.py')
    if tree is None:
        return [9]
    for cls in [n for n in ast.walk(tree) if isinstance(n, ast.ClassDef) and n.name == 'HistogramLayerState']:
        for fn in cls.body:
            if isinstance(fn, ast.FunctionDef) and fn.name == 'update_histogram':
                for st in ast.walk(fn):
                    if (isinstance(st, ast.Assign) and len(st.targets) == 1 and src(st.targets[0]) == 'current_settings' and
                            isinstance(st.value, ast.Tuple)):
                        return [HIST_FIELDS.get(src(e), 9) for e in st.value.elts]
    return [9]


def floodfill_key(modules):
    """FloodFillSubsetState: what the recompute test of the `mask` property compares.
    1 = `self._mask_cache[0] != self._hash or self._mask_cache[1] is not self.data[self.att]` with _compute_mask storing
        (self._hash, values, mask) where values = self.data[self.att]  (the parameters AND the identity of the array the attribute
        evaluates to now);  0 = the parameters only;  9 = anything else (fail closed)"""
    tree = modules.get('glue/core/subset.py')
    if tree is None:
        return 9
    for cls in [n for n in ast.walk(tree) if isinstance(n, ast.ClassDef) and n.name == 'FloodFillSubsetState']:
        fns = {}
        for f in cls.body:
            if isinstance(f, ast.FunctionDef):
                fns.setdefault(f.name, []).append(f)
        getter = [f for f in fns.get('mask', []) if 'property' in deco_names(f)]
        comp = fns.get('_compute_mask', [])
        if len(getter) != 1 or len(comp) != 1:
            return 9
        ifs = [n for n in ast.walk(getter[0]) if isinstance(n, ast.If)]
        if len(ifs) != 1:
            return 9
        test = src(ifs[0].test).replace(' ', '')
        ctext = src(comp[0]).replace(' ', '')
        if test == 'self._mask_cache[0]!=self._hash':
            return 0 if 'self._mask_cache=(self._hash,mask)' in ctext else 9
        if (test == 'self._mask_cache[0]!=self._hashorself._mask_cache[1]isnotself.data[self.att]' and
                'values=self.data[self.att]' in ctext and 'self._mask_cache=(self._hash,values,mask)' in ctext and
                'floodfill(values,self.start_coords,self.threshold)' in ctext):
            return 1
        return 9
    return 9


def generate(out_path):
    fam, modules = scan()
    names = ['SubsetState'] + sorted(n for n in fam if n != 'SubsetState')
    idx = {n: i for i, n in enumerate(names)}
    rows = []
    for n in names:
        d = resolve(fam, n, 'to_mask')
        fn = class_body_fn(fam[d], 'to_mask')
        memo = 'memoize' in deco_names(fn)
        kind, detail = kind_of(fam, n)
        cp = resolve(fam, n, 'copy')
        if cp is None:
            raise Unsupported('no copy() found for ' + n)
        rows.append((idx[n], idx[fam[n]['parent']], idx[d], memo, kind, detail, n, fam[n]['module'], fam[n]['line'], idx[cp]))
    sites, helpers = clear_sites(modules)
    # policy of a mutation path: per function the strongest clearing on it (and whether that one precedes the
    # broadcast); over the functions that implement the path the weakest.  move_to (path 3) is implemented by every
    # class of the family that defines a move_to other than the base no-op: a definition without clearing makes
    # the path unprotected.
    per_fn = {}
    for st in sites:
        k = (st['path'], st['fn'])
        cur = per_fn.get(k)
        if st['scope'] == 99:
            per_fn[k] = (-1, False, False)
        elif cur is None or (cur[0] >= 0 and st['scope'] > cur[0]) or (
                cur[0] >= 0 and st['scope'] == cur[0] and (st['before'], st['uncond']) > (cur[1], cur[2])):
            per_fn[k] = (st['scope'], st['before'], st['uncond'])
    moveto_defs = [(fam[n]['module'], n, 'move_to') for n in names if n != 'SubsetState' and class_body_fn(fam[n], 'move_to') is not None]
    setattr_defs = [(fam['SubsetState']['module'], 'SubsetState', '__setattr__')]
    policy = {}
    for path in sorted(set(PATHS.values())):
        fns = [fnk for (pp, fnk) in per_fn if pp == path]
        required = list(fns)
        if path == 3:
            required = sorted(set(fns) | set(moveto_defs))
        if path == 2:
            required = sorted(set(fns) | set(setattr_defs))
        if not required:
            continue
        vals = [per_fn.get((path, fnk)) for fnk in required]
        if any(v is None or v[0] < 0 for v in vals):
            continue
        policy[path] = (min(v[0] for v in vals), all(v[1] for v in vals), all(v[2] for v in vals))
    t = []
    t.append('(* REGENERATED by tools/gen/gen_memo.py from the working tree of glue -- do not edit.')
    t.append('   class table of the SubsetState family (memoised to_mask definitions, composite operators)')
    t.append('   and the cache-clearing sites of the mutation paths. *)')
    t.append('From Coq Require Import List Bool Arith.')
    t.append('Import ListNotations.')
    t.append('')
    t.append('Record cls := { c_idx : nat; c_parent : nat; c_def : nat; c_memo : bool; c_kind : nat; c_detail : nat; c_copy : nat }.')
    t.append('Record site := { s_path : nat; s_scope : nat; s_before : bool; s_uncond : bool }.')
    t.append('')
    t.append('Definition classes : list cls := [')
    for k, r in enumerate(rows):
        t.append('  {| c_idx := %d; c_parent := %d; c_def := %d; c_memo := %s; c_kind := %d; c_detail := %d; c_copy := %d |}%s  (* %s  %s:%d *)' % (
            r[0], r[1], r[2], 'true' if r[3] else 'false', r[4], r[5], r[9], ';' if k + 1 < len(rows) else '', r[6], r[7], r[8]))
    t.append('].')
    t.append('')
    for n in names:
        t.append('Definition cls_%s : nat := %d.' % (n, idx[n]))
    t.append('')
    t.append('Definition clear_sites : list site := [')
    for k, s in enumerate(sites):
        t.append('  {| s_path := %d; s_scope := %d; s_before := %s; s_uncond := %s |}%s  (* %s *)' % (
            s['path'], s['scope'], 'true' if s['before'] else 'false', 'true' if s['uncond'] else 'false',
            ';' if k + 1 < len(sites) else '', s['where']))
    t.append('].')
    t.append('')
    t.append('(* lookups used by the models *)')
    t.append('Definition find_cls (c : nat) : option cls := find (fun r => Nat.eqb (c_idx r) c) classes.')
    t.append('(* Some f : the class evaluates through the memoised function cache f (= index of the defining class) *)')
    t.append('Definition memo_of (c : nat) : option nat :=')
    t.append('  match find_cls c with Some r => if c_memo r then Some (c_def r) else None | None => None end.')
    t.append('Definition kind_of (c : nat) : nat := match find_cls c with Some r => c_kind r | None => 99 end.')
    t.append('Definition detail_of (c : nat) : nat := match find_cls c with Some r => c_detail r | None => 0 end.')
    t.append('(* the function caches that exist *)')
    t.append('Definition memo_fns : list nat := map c_idx (filter (fun r => c_memo r && Nat.eqb (c_def r) (c_idx r)) classes).')
    t.append('(* policy of a mutation path (0 update_components, 1 update_values_from_data, 2 attribute assignment on a state,')
    t.append('   3 move_to, 4 links / externally derivable components, 5 pixel-aligned datasets, 6 remove_component,')
    t.append('   7 add_component replacing an existing attribute): (path, scope, before the broadcast);')
    t.append('   a path that is not listed clears nothing *)')
    t.append('Definition path_policy : list (nat * nat * bool) := [')
    items = sorted(policy.items())
    for k, (pth, (sc, bf, un)) in enumerate(items):
        t.append('  (%d, %d, %s)%s' % (pth, sc, 'true' if bf else 'false', ';' if k + 1 < len(items) else ''))
    t.append('].')
    t.append('(* is the clearing on the path executed whenever the mutating statement is (true), or only under a further condition (false) *)')
    t.append('Definition path_uncond : list (nat * bool) := [')
    for k, (pth, (sc, bf, un)) in enumerate(items):
        t.append('  (%d, %s)%s' % (pth, 'true' if un else 'false', ';' if k + 1 < len(items) else ''))
    t.append('].')
    t.append('Definition uncond_of (p : nat) : bool :=')
    t.append('  match find (fun r => Nat.eqb (fst r) p) path_uncond with Some r => snd r | None => false end.')
    plain, wrapper_ok = memo_key_facts(modules)
    t.append('(* glue/core/decorators.py: 1 = `_make_key` is exactly (args, frozenset(kwargs.items())) -- arguments enter the key as they are,')
    t.append('   so list / array views are unhashable and bypass the cache, tuples and lists never share an entry; 1 = `memoize` is the')
    t.append('   look-up / compute-and-store wrapper with the plain call for unhashable keys *)')
    t.append('Definition memo_key_plain : nat := %d.' % plain)
    t.append('Definition memo_wrapper_plain : nat := %d.' % wrapper_ok)
    t.append('(* HistogramLayerState.update_histogram: fields of the cache key (1 id(x_att) 2 x_log 3 hist_x_min 4 hist_x_max 5 hist_n_bin 9 other) *)')
    t.append('Definition hist_key_fields : list nat := [%s].' % '; '.join(str(k) for k in hist_key_fields(modules)))
    t.append('(* FloodFillSubsetState.mask recomputes when: 1 = the parameters differ OR data[att] is not the array the mask was computed from;')
    t.append('   0 = the parameters differ (values never looked at); 9 = some other test *)')
    t.append('Definition floodfill_key : nat := %d.' % floodfill_key(modules))
    t.append('Definition find_policy (p : nat) : option (nat * nat * bool) := find (fun r => Nat.eqb (fst (fst r)) p) path_policy.')
    t.append('Definition scope_of (p : nat) : option nat := match find_policy p with Some r => Some (snd (fst r)) | None => None end.')
    t.append('Definition before_of (p : nat) : bool := match find_policy p with Some r => snd r | None => true end.')
    text = '\n'.join(t) + '\n'
    if not os.path.exists(out_path) or open(out_path).read() != text:
        tmp = out_path + '.tmp'
        with open(tmp, 'w') as f:
            f.write(text)
        os.replace(tmp, out_path)
    return rows, sites


if __name__ == '__main__':
    out = sys.argv[1] if len(sys.argv) > 1 else os.path.join(os.path.dirname(os.path.dirname(HERE)), 'coq/gen/Gen_memo.v')
    try:
        rows, sites = generate(out)
    except Unsupported as e:
        print('TRANSLATION-FAILED: %s' % e)
        sys.exit(3)
    print('ok', out, '%d classes, %d memoised, %d clear sites' % (len(rows), sum(1 for r in rows if r[3]), len(sites)))
