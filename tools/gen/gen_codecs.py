#!/usr/bin/env python3
"""Regenerate coq/gen/Gen_codecs.v from the *current* source of the package under $GLUE_REPO (C02).

Field-level table of every registered saver / loader function (GlueSerializer.dispatch / GlueUnSerializer.dispatch), by `ast`:

  saver   one row per (class, version): the *paths* through the function (every `if` / loop / try forks), and for each path the
          record keys it writes with, per key, the flag "the stored value depends on a test": the value expression (local names
          resolved through their assignments) contains a conditional expression / boolean operator / comparison, or mentions a
          local that is bound more than once, bound or mutated in a block that does not enclose the use.  A key written on some
          paths only is a *conditional* key (computed on the Coq side).  `dynamic` = some key is not a literal.
  loader  one row per (class, version): the paths through the function, each with the facts it has tested (`'k' in rec` true: present,
          false: absent), the keys it reads (`rec['k']`; `rec.get` and reads guarded by their own `'k' in rec` are not required reads),
          `dynamic` = it reads a computed key, and, when the path builds the object by calling the registered class
          (or `cls` looked up from rec['_type']): for every parameter of that class's __init__, whether the argument given for it is
          computed from the record.
  A saver / loader calling another one on the same record (`_save_data_2` -> `_save_data`) is inlined.

Fail closed: a statement shape the walker does not know (the record escaping into an unknown call, a record built by an expression
that is not a dict display / dict(...) / another saver, a function falling off its end, ...) aborts with a non-zero exit status.
"""
import ast
import inspect
import os
import sys
import textwrap

HERE = os.path.dirname(os.path.abspath(__file__))
sys.path.insert(0, HERE)
import gen_tables                                            # noqa: E402
from gen_tables import Uninterpretable, qn, in_package       # noqa: E402

FRAMEWORK_KEYS = ['_type', '_protocol']      # added to every record by GlueSerializer.do (checked against the source in collect)
MAX_PATHS = 256


# ------------------------------------------------------------------ generic ast helpers
def fn_node(f):
    try:
        src = textwrap.dedent(inspect.getsource(f))
        node = ast.parse(src).body[0]
    except Exception as e:
        raise Uninterpretable('cannot read the source of %r: %r' % (f, e))
    if not isinstance(node, ast.FunctionDef):
        raise Uninterpretable('%r is not a plain function' % (f,))
    return node


def annotate_blocks(fn):
    """node._bp = tuple identifying the chain of compound statements (and which branch) around each statement"""
    counter = [0]

    def visit(stmts, bp):
        for s in stmts:
            s._bp = bp
            if isinstance(s, (ast.If, ast.While)):
                counter[0] += 1
                k = counter[0]
                visit(s.body, bp + ((k, 'body'),))
                visit(s.orelse, bp + ((k, 'else'),))
            elif isinstance(s, ast.For):
                counter[0] += 1
                k = counter[0]
                visit(s.body, bp + ((k, 'body'),))
                visit(s.orelse, bp + ((k, 'else'),))
            elif isinstance(s, ast.Try):
                counter[0] += 1
                k = counter[0]
                visit(s.body, bp + ((k, 'try'),))
                for i, h in enumerate(s.handlers):
                    visit(h.body, bp + ((k, 'except%d' % i),))
                visit(s.orelse, bp + ((k, 'tryelse'),))
                visit(s.finalbody, bp)
            elif isinstance(s, ast.With):
                visit(s.body, bp)
            elif isinstance(s, (ast.FunctionDef, ast.ClassDef)):
                pass
    visit(fn.body, ())


def is_prefix(a, b):
    return len(a) <= len(b) and b[:len(a)] == a


class FnInfo(object):
    """bindings and mutations of the local names of one function (nested function bodies excluded)"""

    def __init__(self, fn):
        self.fn = fn
        self.params = [a.arg for a in fn.args.args + fn.args.kwonlyargs] + ([fn.args.vararg.arg] if fn.args.vararg else []) + \
                      ([fn.args.kwarg.arg] if fn.args.kwarg else [])
        self.bind = {}       # name -> [(blockpath, value expr or None)]
        self.mut = {}        # name -> [blockpath]
        annotate_blocks(fn)
        self._scan(fn.body)

    def _b(self, name, bp, value):
        self.bind.setdefault(name, []).append((bp, value))

    def _targets(self, t, bp, value):
        if isinstance(t, ast.Name):
            self._b(t.id, bp, value)
        elif isinstance(t, (ast.Tuple, ast.List)):
            for e in t.elts:
                self._targets(e, bp, value)      # the whole right-hand side stands for each element
        elif isinstance(t, ast.Starred):
            self._targets(t.value, bp, value)
        elif isinstance(t, (ast.Subscript, ast.Attribute)):
            base = t
            while isinstance(base, (ast.Subscript, ast.Attribute)):
                base = base.value
            if isinstance(base, ast.Name):
                self.mut.setdefault(base.id, []).append(bp)

    def _scan(self, stmts):
        for s in stmts:
            bp = s._bp
            if isinstance(s, ast.Assign):
                for t in s.targets:
                    self._targets(t, bp, s.value)
            elif isinstance(s, ast.AugAssign):
                self._targets(s.target, bp, None)
                if isinstance(s.target, ast.Name):
                    self._b(s.target.id, bp, None)
            elif isinstance(s, ast.AnnAssign):
                self._targets(s.target, bp, s.value)
            elif isinstance(s, ast.For):
                inner = s.body[0]._bp if s.body else bp
                self._targets(s.target, inner, s.iter)
                self._scan(s.body)
                self._scan(s.orelse)
            elif isinstance(s, (ast.If, ast.While)):
                self._scan(s.body)
                self._scan(s.orelse)
            elif isinstance(s, ast.Try):
                self._scan(s.body)
                for h in s.handlers:
                    if h.name:
                        self._b(h.name, h.body[0]._bp if h.body else bp, None)
                    self._scan(h.body)
                self._scan(s.orelse)
                self._scan(s.finalbody)
            elif isinstance(s, ast.With):
                for it in s.items:
                    if it.optional_vars is not None:
                        self._targets(it.optional_vars, bp, it.context_expr)
                self._scan(s.body)
            elif isinstance(s, (ast.FunctionDef, ast.ClassDef)):
                self._b(s.name, bp, None)
            elif isinstance(s, (ast.Import, ast.ImportFrom)):
                for a in s.names:
                    self._b((a.asname or a.name).split('.')[0], bp, None)
            elif isinstance(s, ast.Expr) and isinstance(s.value, ast.Call) and isinstance(s.value.func, ast.Attribute):
                # a method call on a local as a statement (x.append(..), x.update(..)) mutates it
                base = s.value.func.value
                while isinstance(base, (ast.Subscript, ast.Attribute)):
                    base = base.value
                if isinstance(base, ast.Name):
                    self.mut.setdefault(base.id, []).append(bp)

    def local_names(self, expr):
        """local (function-level) names loaded in an expression; comprehension / lambda variables excluded"""
        bound = set()
        for n in ast.walk(expr):
            if isinstance(n, ast.comprehension):
                for t in ast.walk(n.target):
                    if isinstance(t, ast.Name):
                        bound.add(t.id)
            elif isinstance(n, ast.Lambda):
                for a in n.args.args:
                    bound.add(a.arg)
        out = []
        for n in ast.walk(expr):
            if isinstance(n, ast.Name) and isinstance(n.ctx, ast.Load) and n.id in self.bind and n.id not in bound and n.id not in out:
                out.append(n.id)
        return out

    def depends_on_test(self, expr, use_bp, seen=None):
        """does the value of expr (at a statement in block use_bp) depend on a test?"""
        seen = set() if seen is None else seen
        for n in ast.walk(expr):
            if isinstance(n, (ast.IfExp, ast.BoolOp, ast.Compare)):
                return True
        for name in self.local_names(expr):
            if name in seen:
                continue
            seen.add(name)
            binds = self.bind[name]
            if len(binds) != 1:
                return True
            bp, value = binds[0]
            if not is_prefix(bp, use_bp):
                return True
            for mbp in self.mut.get(name, []):
                if not is_prefix(mbp, use_bp):
                    return True
            if value is not None and self.depends_on_test(value, use_bp, seen):
                return True
        return False

    def mentions(self, expr, pname, seen=None):
        """is expr computed from the parameter pname (directly or through locals all of whose bindings are)?"""
        seen = set() if seen is None else seen
        for n in ast.walk(expr):
            if isinstance(n, ast.Name) and n.id == pname:
                return True
        for name in self.local_names(expr):
            if name in seen:
                continue
            seen.add(name)
            vals = [v for _, v in self.bind[name]]
            if vals and all(v is not None and self.mentions(v, pname, seen) for v in vals):
                return True
        return False


def const_str(n):
    return n.value if isinstance(n, ast.Constant) and isinstance(n.value, str) else None


# ------------------------------------------------------------------ savers
class SaverWalker(object):
    def __init__(self, f, module_funcs, cache, stack=()):
        self.f = f
        self.fn = fn_node(f)
        self.info = FnInfo(self.fn)
        self.module_funcs = module_funcs
        self.cache = cache
        self.stack = stack + (f.__name__,)
        if len(self.fn.args.args) < 2:
            raise Uninterpretable('saver %s takes fewer than 2 arguments' % f.__name__)
        self.obj = self.fn.args.args[0].arg
        self.ctx = self.fn.args.args[1].arg
        self.paths = []

    def fail(self, node, why):
        raise Uninterpretable('saver %s line %d: %s' % (self.f.__name__, getattr(node, 'lineno', 0), why))

    # a record value: {'keys': {k: vtest}, 'dynamic': bool}
    def record_exprs(self, expr, use_bp):
        """records an expression may evaluate to (a list: inlining another saver forks), or None when it is not a record expression"""
        if isinstance(expr, ast.Dict):
            rec = {'keys': {}, 'dynamic': False}
            for k, v in zip(expr.keys, expr.values):
                ks = const_str(k) if k is not None else None
                if ks is None:
                    rec['dynamic'] = True
                else:
                    rec['keys'][ks] = self.info.depends_on_test(v, use_bp)
                    self.value_info(rec, ks, v, use_bp)
            return [rec]
        if isinstance(expr, ast.Call) and isinstance(expr.func, ast.Name) and expr.func.id in ('dict', 'OrderedDict') and expr.func.id not in self.info.bind:
            rec = {'keys': {}, 'dynamic': bool(expr.args)}
            for kw in expr.keywords:
                if kw.arg is None:
                    rec['dynamic'] = True
                else:
                    rec['keys'][kw.arg] = self.info.depends_on_test(kw.value, use_bp)
                    self.value_info(rec, kw.arg, kw.value, use_bp)
            return [rec]
        if isinstance(expr, ast.Call) and isinstance(expr.func, ast.Name) and expr.func.id in self.module_funcs and expr.func.id not in self.info.bind \
                and expr.args and isinstance(expr.args[0], ast.Name) and expr.args[0].id == self.obj:
            callee = self.module_funcs[expr.func.id]
            if callee.__name__ in self.stack:
                self.fail(expr, 'recursive saver')
            res = analyse_saver(callee, self.module_funcs, self.cache, self.stack)
            return [{'keys': dict(p['keys']), 'dynamic': p['dynamic']} for p in res]
        return None

    def value_info(self, rec, key, expr, bp):
        """hook: what else is recorded about the value stored under a key (nothing for the registered functions)"""

    def run(self):
        self.walk(self.fn.body, {}, self.finish_fall, None)
        if len(self.paths) > MAX_PATHS:
            self.fail(self.fn, 'too many paths')
        return self.paths

    def finish_fall(self, recs):
        self.fail(self.fn, 'a path falls off the end of the function without returning a record')

    def walk(self, stmts, recs, cont, lexit):
        """recs: {local name: record}; cont(recs) continues after the statement list; lexit(recs) after the innermost loop"""
        if not stmts:
            return cont(recs)
        s, rest = stmts[0], stmts[1:]
        nxt = lambda r: self.walk(rest, r, cont, lexit)
        if len(self.paths) > MAX_PATHS:
            self.fail(s, 'too many paths')
        if isinstance(s, ast.Return):
            if s.value is None:
                self.fail(s, 'returns nothing')
            if isinstance(s.value, ast.Name) and s.value.id in recs:
                self.paths.append(recs[s.value.id])
                return
            rs = self.record_exprs(s.value, s._bp)
            if rs is None:
                self.fail(s, 'returns something that is not a dict display, dict(...), a record variable or another saver of this module')
            self.paths.extend(rs)
            return
        if isinstance(s, ast.Raise):
            return      # loud failure: no record
        if isinstance(s, ast.Assign) and len(s.targets) == 1 and isinstance(s.targets[0], ast.Name):
            rs = self.record_exprs(s.value, s._bp)
            if rs is not None:
                for r in rs:
                    nr = dict(recs)
                    nr[s.targets[0].id] = r
                    nxt(nr)
                return
            if s.targets[0].id in recs:
                self.fail(s, 'a record variable is rebound to something else')
            return nxt(recs)
        if isinstance(s, ast.Assign) and len(s.targets) == 1 and isinstance(s.targets[0], ast.Subscript) \
                and isinstance(s.targets[0].value, ast.Name) and s.targets[0].value.id in recs:
            name = s.targets[0].value.id
            k = const_str(s.targets[0].slice)
            r = {'keys': dict(recs[name]['keys']), 'dynamic': recs[name]['dynamic']}
            if 'chains' in recs[name]:
                r['chains'] = dict(recs[name]['chains'])
            if k is None:
                r['dynamic'] = True
            else:
                r['keys'][k] = self.info.depends_on_test(s.value, s._bp)
                self.value_info(r, k, s.value, s._bp)
            nr = dict(recs)
            nr[name] = r
            return nxt(nr)
        if isinstance(s, ast.If):
            self.walk(s.body, recs, nxt, lexit)
            self.walk(s.orelse, recs, nxt, lexit)
            return
        if isinstance(s, (ast.For, ast.While)):
            nxt(recs)                                   # no iteration
            self.walk(s.body, recs, nxt, nxt)           # one iteration stands for any number (keys written in a loop are conditional anyway)
            return
        if isinstance(s, ast.Try):
            after = lambda r: self.walk(s.orelse + s.finalbody, r, nxt, lexit)
            self.walk(s.body, recs, after, lexit)
            for h in s.handlers:
                self.walk(h.body + s.finalbody, recs, nxt, lexit)
            return
        if isinstance(s, ast.With):
            return self.walk(s.body, recs, nxt, lexit)
        if isinstance(s, (ast.Continue, ast.Break)):
            if lexit is None:
                self.fail(s, 'continue / break outside a loop')
            return lexit(recs)
        if isinstance(s, (ast.FunctionDef, ast.Pass, ast.Import, ast.ImportFrom, ast.Assert, ast.AugAssign, ast.AnnAssign, ast.Assign, ast.Delete)):
            for n in ast.walk(s) if not isinstance(s, ast.FunctionDef) else []:
                if isinstance(n, ast.Name) and n.id in recs and isinstance(s, (ast.Delete, ast.AugAssign)):
                    self.fail(s, 'a record variable is modified in a way the walker does not follow')
            if isinstance(s, ast.Assign):
                for t in s.targets:
                    for n in ast.walk(t):
                        if isinstance(n, ast.Name) and n.id in recs:
                            self.fail(s, 'a record variable is modified in a way the walker does not follow')
            return nxt(recs)
        if isinstance(s, ast.Expr):
            if isinstance(s.value, ast.Call):
                for n in ast.walk(s.value):
                    if isinstance(n, ast.Name) and n.id in recs:
                        self.fail(s, 'a record variable escapes into a call (update / pop / ...)')
            return nxt(recs)
        self.fail(s, 'statement kind %s is not interpreted' % type(s).__name__)


def analyse_saver(f, module_funcs, cache, stack=()):
    if f in cache:
        return cache[f]
    w = SaverWalker(f, module_funcs, cache, stack)
    paths = w.run()
    # canonical, duplicate-free
    out = []
    for p in paths:
        c = {'keys': dict(sorted(p['keys'].items())), 'dynamic': p['dynamic']}
        if c not in out:
            out.append(c)
    cache[f] = out
    return out


# ------------------------------------------------------------------ loaders
class LoaderWalker(object):
    def __init__(self, f, cls, module_funcs, cache, stack=()):
        self.f = f
        self.cls = cls
        self.fn = fn_node(f)
        self.info = FnInfo(self.fn)
        self.module_funcs = module_funcs
        self.cache = cache
        self.stack = stack + (f.__name__,)
        if len(self.fn.args.args) < 2:
            raise Uninterpretable('loader %s takes fewer than 2 arguments' % f.__name__)
        self.rec = self.fn.args.args[0].arg
        self.paths = []
        self.init_params = None
        if cls is not None and (cls.__module__ == 'glue' or cls.__module__.startswith('glue.')):     # constructor arguments of the package's own classes only
            try:
                sig = inspect.signature(cls.__init__)
                self.init_params = [p for p in list(sig.parameters.values())[1:] if p.kind in (p.POSITIONAL_ONLY, p.POSITIONAL_OR_KEYWORD, p.KEYWORD_ONLY)]
            except (TypeError, ValueError):
                self.init_params = None
        # names that stand for the class being restored: its own name, and locals bound to lookup_class_with_patches(rec['_type'])
        self.cls_names = set([cls.__name__]) if cls is not None else set()
        for name, binds in self.info.bind.items():
            for _, v in binds:
                if isinstance(v, ast.Call) and isinstance(v.func, ast.Name) and v.func.id in ('lookup_class_with_patches', 'lookup_class') and v.args \
                        and isinstance(v.args[0], ast.Subscript) and isinstance(v.args[0].value, ast.Name) and v.args[0].value.id == self.rec \
                        and const_str(v.args[0].slice) == '_type':
                    self.cls_names.add(name)

    def fail(self, node, why):
        raise Uninterpretable('loader %s line %d: %s' % (self.f.__name__, getattr(node, 'lineno', 0), why))

    @staticmethod
    def new_state():
        return {'present': [], 'absent': [], 'reads': [], 'dynamic': False, 'ctor': None}

    @staticmethod
    def copy(st):
        return {'present': list(st['present']), 'absent': list(st['absent']), 'reads': list(st['reads']), 'dynamic': st['dynamic'],
                'ctor': None if st['ctor'] is None else list(st['ctor'])}

    def in_test(self, n):
        """('k', True) for `'k' in rec`, ('k', False) for `'k' not in rec`, else None"""
        if isinstance(n, ast.Compare) and len(n.ops) == 1 and isinstance(n.comparators[0], ast.Name) and n.comparators[0].id == self.rec:
            k = const_str(n.left)
            if k is not None and isinstance(n.ops[0], ast.In):
                return (k, True)
            if k is not None and isinstance(n.ops[0], ast.NotIn):
                return (k, False)
        return None

    def scan_expr(self, expr, st, guarded=()):
        """account for the uses of the record in an expression; returns the list of states (calling another loader forks)"""
        states = [st]

        def visit(n, guarded):
            nonlocal states
            if isinstance(n, ast.Subscript) and isinstance(n.value, ast.Name) and n.value.id == self.rec:
                k = const_str(n.slice)
                for s in states:
                    if k is None:
                        s['dynamic'] = True
                    elif k not in guarded and k not in s['reads']:
                        s['reads'].append(k)
                if k is None:
                    visit(n.slice, guarded)
                return
            if isinstance(n, ast.Call):
                # rec.get('k', ...) / rec.get(k)
                if isinstance(n.func, ast.Attribute) and isinstance(n.func.value, ast.Name) and n.func.value.id == self.rec:
                    if n.func.attr == 'get':
                        for a in n.args:
                            visit(a, guarded)
                        return
                    self.fail(n, 'the record is used through .%s(...)' % n.func.attr)
                # another loader of this module on the same record
                if isinstance(n.func, ast.Name) and n.func.id in self.module_funcs and n.func.id not in self.info.bind \
                        and n.args and isinstance(n.args[0], ast.Name) and n.args[0].id == self.rec:
                    callee = self.module_funcs[n.func.id]
                    if callee.__name__ in self.stack:
                        self.fail(n, 'recursive loader')
                    sub = analyse_loader(callee, None, self.module_funcs, self.cache, self.stack)
                    new = []
                    for s in states:
                        for p in sub:
                            if any(k in s['absent'] for k in p['present']) or any(k in s['present'] for k in p['absent']):
                                continue
                            s2 = self.copy(s)
                            for k in p['present']:
                                if k not in s2['present']:
                                    s2['present'].append(k)
                            for k in p['absent']:
                                if k not in s2['absent']:
                                    s2['absent'].append(k)
                            for k in p['reads']:
                                if k not in s2['reads']:
                                    s2['reads'].append(k)
                            s2['dynamic'] = s2['dynamic'] or p['dynamic']
                            new.append(s2)
                    states = new
                    for a in n.args[1:]:
                        visit(a, guarded)
                    return
                # construction of the class being restored
                if isinstance(n.func, ast.Name) and n.func.id in self.cls_names and self.init_params is not None:
                    fed = self.ctor_args(n)
                    for s in states:
                        s['ctor'] = fed
                for c in ast.iter_child_nodes(n):
                    visit(c, guarded)
                return
            if isinstance(n, ast.IfExp):
                t = self.in_test(n.test)
                visit(n.test, guarded)
                if t and t[1]:
                    visit(n.body, guarded + (t[0],))
                    visit(n.orelse, guarded)
                elif t:
                    visit(n.body, guarded)
                    visit(n.orelse, guarded + (t[0],))
                else:
                    visit(n.body, guarded)
                    visit(n.orelse, guarded)
                return
            if isinstance(n, ast.BoolOp) and isinstance(n.op, ast.And):
                g = guarded
                for v in n.values:
                    visit(v, g)
                    t = self.in_test(v)
                    if t and t[1]:
                        g = g + (t[0],)
                return
            if isinstance(n, ast.Compare) and self.in_test(n):
                return
            if isinstance(n, ast.Name) and n.id == self.rec:
                self.fail(n, 'the record is used as a whole (passed on, iterated, ...)')
            if isinstance(n, (ast.FunctionDef, ast.Lambda)):
                for c in ast.iter_child_nodes(n):
                    visit(c, guarded)
                return
            for c in ast.iter_child_nodes(n):
                visit(c, guarded)
        visit(expr, tuple(guarded))
        return states

    def ctor_args(self, call):
        if any(isinstance(a, ast.Starred) for a in call.args) or any(k.arg is None for k in call.keywords):
            self.fail(call, 'the class is called with * / ** arguments')
        given = {}
        pos = [p for p in self.init_params if p.kind in (p.POSITIONAL_ONLY, p.POSITIONAL_OR_KEYWORD)]
        for i, a in enumerate(call.args):
            if i < len(pos):
                given[pos[i].name] = a
        for k in call.keywords:
            given[k.arg] = k.value
        out = []
        for p in self.init_params:
            e = given.get(p.name)
            out.append((p.name, bool(e is not None and self.info.mentions(e, self.rec))))
        return out

    def stmt_exprs(self, s):
        """the expressions evaluated by the statement itself (not its nested blocks)"""
        if isinstance(s, (ast.If, ast.While)):
            return [s.test]
        if isinstance(s, ast.For):
            return [s.iter]
        if isinstance(s, ast.With):
            return [it.context_expr for it in s.items]
        if isinstance(s, ast.Try):
            return []
        if isinstance(s, ast.FunctionDef):
            return list(s.body)     # a nested helper: what it reads is read when it is called; counted as read by the path that defines it
        return [s]

    def run(self):
        self.walk(self.fn.body, self.new_state(), lambda st: self.paths.append(st))
        if len(self.paths) > MAX_PATHS:
            self.fail(self.fn, 'too many paths')
        return self.paths

    def walk(self, stmts, st, cont):
        if not stmts:
            return cont(st)
        s, rest = stmts[0], stmts[1:]
        if len(self.paths) > MAX_PATHS:
            self.fail(s, 'too many paths')
        nxt = lambda x: self.walk(rest, x, cont)
        if isinstance(s, ast.If):
            t = self.in_test(s.test)
            first = None
            if t is None and isinstance(s.test, ast.BoolOp) and isinstance(s.test.op, ast.And):
                first = self.in_test(s.test.values[0])
            for st1 in self.scan_expr(s.test, self.copy(st)):
                # true branch
                tb = self.copy(st1)
                fb = self.copy(st1)
                ok_t = ok_f = True
                fact = t or (first if first and first[1] else None)
                if fact:
                    k, pol = fact
                    if pol:
                        ok_t = k not in tb['absent']
                        if k not in tb['present']:
                            tb['present'].append(k)
                    else:
                        ok_t = k not in tb['present']
                        if k not in tb['absent']:
                            tb['absent'].append(k)
                if t:
                    k, pol = t
                    if pol:
                        ok_f = k not in fb['present']
                        if k not in fb['absent']:
                            fb['absent'].append(k)
                    else:
                        ok_f = k not in fb['absent']
                        if k not in fb['present']:
                            fb['present'].append(k)
                if ok_t:
                    self.walk(s.body, tb, nxt)
                if ok_f:
                    self.walk(s.orelse, fb, nxt)
            return
        if isinstance(s, (ast.For, ast.While)):
            for st1 in self.scan_expr(self.stmt_exprs(s)[0], self.copy(st)):
                # the body is taken once: what it reads is required (an empty iteration is the special case)
                self.walk(s.body + s.orelse, st1, nxt)
            return
        if isinstance(s, ast.Try):
            after = lambda x: self.walk(s.orelse + s.finalbody, x, nxt)
            self.walk(s.body, self.copy(st), after)
            for h in s.handlers:
                self.walk(h.body + s.finalbody, self.copy(st), nxt)
            return
        if isinstance(s, ast.With):
            sts = [self.copy(st)]
            for e in self.stmt_exprs(s):
                sts = [y for x in sts for y in self.scan_expr(e, x)]
            for st1 in sts:
                self.walk(s.body, st1, nxt)
            return
        if isinstance(s, ast.Raise):
            return       # a loud failure at load time ends the path; no requirement follows from it
        if isinstance(s, (ast.Continue, ast.Break)):
            return nxt(st)
        sts = [self.copy(st)]
        for e in self.stmt_exprs(s):
            sts = [y for x in sts for y in self.scan_expr(e, x)]
        if isinstance(s, ast.Return):
            for st1 in sts:
                self.paths.append(st1)
            return
        for st1 in sts:
            nxt(st1)


def analyse_loader(f, cls, module_funcs, cache, stack=()):
    key = (f, cls)
    if key in cache:
        return cache[key]
    w = LoaderWalker(f, cls, module_funcs, cache, stack)
    paths = w.run()
    out = []
    for p in paths:
        c = {'present': sorted(p['present']), 'absent': sorted(p['absent']), 'reads': sorted(p['reads']), 'dynamic': p['dynamic'], 'ctor': p['ctor']}
        if c not in out:
            out.append(c)
    cache[key] = out
    return out


# ------------------------------------------------------------------ __gluestate__ / __setgluestate__ method pairs
# allowed between an attribute of the instance and context.id / context.do (nothing is lost): attribute access, np.asarray(x),
# x.tolist(), x.items(), list / tuple / dict / str / float / int (x), list / tuple / dict displays, comprehensions and map(context.id, x)
# without a filter.  Anything else is recorded under its name as a "lossy-or-unknown transformation".
LOSSLESS_FUNCS = ('list', 'tuple', 'dict', 'str', 'float', 'int')
LOSSLESS_METHODS = ('tolist', 'items')


def unparse(n):
    try:
        return ast.unparse(n)
    except Exception:
        return type(n).__name__


class MethodSaverWalker(SaverWalker):
    """SaverWalker over a __gluestate__ method, recording per key the sources (attributes of self) and the transformations"""

    def __init__(self, owner, pkgdir, cache, stack=()):
        f = owner.__dict__['__gluestate__']
        self.owner = owner
        self.pkgdir = pkgdir
        SaverWalker.__init__(self, f, {}, cache, stack)
        self.stack = stack + (qn(owner),)

    def fail(self, node, why):
        raise Uninterpretable('%s.__gluestate__ line %d: %s' % (qn(self.owner), getattr(node, 'lineno', 0), why))

    def is_ctx_call(self, n):
        return isinstance(n, ast.Attribute) and isinstance(n.value, ast.Name) and n.value.id == self.ctx and n.attr in ('id', 'do')

    def self_path(self, n):
        """'a.b' for self.a.b, else None"""
        parts = []
        while isinstance(n, ast.Attribute):
            parts.append(n.attr)
            n = n.value
        if isinstance(n, ast.Name) and n.id == self.obj and parts:
            return '.'.join(reversed(parts))
        return None

    def chain(self, e, bp, env, src, lossy, seen):
        def L(name):
            if name not in lossy:
                lossy.append(name)

        def S(name):
            if name not in src:
                src.append(name)
        rec = lambda x, env2=env: self.chain(x, bp, env2, src, lossy, seen)
        if isinstance(e, ast.Constant):
            return
        if isinstance(e, ast.Name):
            if e.id in env:
                return
            if e.id == self.obj:
                return S('self')
            if e.id in self.info.bind:
                if e.id in seen:
                    return
                binds = self.info.bind[e.id]
                if len(binds) != 1 or binds[0][1] is None or not is_prefix(binds[0][0], bp) or self.info.mut.get(e.id):
                    return L('local:' + e.id)
                return self.chain(binds[0][1], bp, env, src, lossy, seen + (e.id,))
            return L('name:' + e.id)
        if isinstance(e, ast.Attribute):
            sp = self.self_path(e)
            if sp is not None:
                return S(sp)
            return rec(e.value)
        if isinstance(e, ast.Call):
            f = e.func
            plain = len(e.args) == 1 and not e.keywords and not isinstance(e.args[0], ast.Starred)
            if self.is_ctx_call(f) and plain:
                return rec(e.args[0])
            if isinstance(f, ast.Attribute) and isinstance(f.value, ast.Name) and f.value.id in ('np', 'numpy') and f.attr == 'asarray' and plain:
                return rec(e.args[0])
            if isinstance(f, ast.Attribute) and f.attr in LOSSLESS_METHODS and not e.args and not e.keywords:
                return rec(f.value)
            if isinstance(f, ast.Name) and f.id in LOSSLESS_FUNCS and f.id not in self.info.bind and plain:
                return rec(e.args[0])
            if isinstance(f, ast.Name) and f.id == 'map' and 'map' not in self.info.bind and len(e.args) == 2 and not e.keywords and self.is_ctx_call(e.args[0]):
                return rec(e.args[1])
            if isinstance(f, ast.Attribute) and isinstance(f.value, ast.Name) and f.value.id == self.obj:
                L('self.%s()' % f.attr)
            elif isinstance(f, ast.Attribute):
                L('.%s()' % f.attr if not (isinstance(f.value, ast.Name) and f.value.id not in self.info.bind and f.value.id not in env) else '%s()' % unparse(f))
                rec(f.value) if not isinstance(f.value, ast.Name) or f.value.id in self.info.bind or f.value.id in env else None
            else:
                L('%s()' % unparse(f))
            for a in e.args:
                rec(a.value if isinstance(a, ast.Starred) else a)
            for k in e.keywords:
                rec(k.value)
            return
        if isinstance(e, (ast.ListComp, ast.SetComp, ast.GeneratorExp, ast.DictComp)):
            env2 = set(env)
            for g in e.generators:
                self.chain(g.iter, bp, frozenset(env2), src, lossy, seen)
                if g.ifs:
                    L('filter')
                for t in ast.walk(g.target):
                    if isinstance(t, ast.Name):
                        env2.add(t.id)
            env2 = frozenset(env2)
            if isinstance(e, ast.DictComp):
                rec(e.key, env2)
                rec(e.value, env2)
            else:
                rec(e.elt, env2)
            return
        if isinstance(e, (ast.List, ast.Tuple)):
            for x in e.elts:
                rec(x.value if isinstance(x, ast.Starred) else x)
            return
        if isinstance(e, ast.Dict):
            for k, v in zip(e.keys, e.values):
                if k is None or const_str(k) is None:
                    L('computed-key')
                rec(v)
            return
        if isinstance(e, ast.BinOp):
            L('arith:' + type(e.op).__name__)
        elif isinstance(e, ast.UnaryOp):
            L('arith:' + type(e.op).__name__)
        elif isinstance(e, ast.Subscript):
            L('slice' if isinstance(e.slice, ast.Slice) else 'index')
        elif isinstance(e, (ast.Compare, ast.BoolOp, ast.IfExp)):
            L('test')
        else:
            L('expr:' + type(e).__name__)
        for c in ast.iter_child_nodes(e):
            if isinstance(c, ast.expr):
                rec(c)

    def value_info(self, rec, key, expr, bp):
        src, lossy = [], []
        self.chain(expr, bp, frozenset(), src, lossy, ())
        if self.info.depends_on_test(expr, bp) and 'test' not in lossy and not any(x.startswith('local:') for x in lossy):
            lossy.append('test')
        if not src and not lossy:
            lossy.append('no-instance-state')
        rec.setdefault('chains', {})[key] = (sorted(src), lossy)

    def record_exprs(self, expr, use_bp):
        # super(X, self).__gluestate__(context) / super().__gluestate__(context): the record of the next provider along the MRO
        if isinstance(expr, ast.Call) and isinstance(expr.func, ast.Attribute) and expr.func.attr == '__gluestate__' \
                and isinstance(expr.func.value, ast.Call) and isinstance(expr.func.value.func, ast.Name) and expr.func.value.func.id == 'super':
            nxt = None
            for k in self.owner.__mro__[1:]:
                if '__gluestate__' in k.__dict__:
                    nxt = k
                    break
            if nxt is None:
                return []       # no class further along the MRO defines it: AttributeError, a loud failure at save time (no record)
            if not in_package(nxt, self.pkgdir):
                self.fail(expr, 'super().__gluestate__ does not resolve to a class of the package')
            if qn(nxt) in self.stack:
                self.fail(expr, 'recursive __gluestate__')
            res = analyse_method_saver(nxt, self.pkgdir, self.cache, self.stack)
            return [{'keys': dict(p['keys']), 'dynamic': p['dynamic'], 'chains': dict(p['chains'])} for p in res]
        rs = SaverWalker.record_exprs(self, expr, use_bp)
        if rs is not None:
            for r in rs:
                r.setdefault('chains', {})
        return rs


def analyse_method_saver(owner, pkgdir, cache, stack=()):
    if owner in cache:
        return cache[owner]
    w = MethodSaverWalker(owner, pkgdir, cache, stack)
    out = []
    for p in w.run():
        ch = p.get('chains', {})
        for k in p['keys']:
            if k not in ch:
                raise Uninterpretable('%s.__gluestate__: no value recorded for key %r' % (qn(owner), k))
        c = {'keys': dict(sorted(p['keys'].items())), 'dynamic': p['dynamic'], 'chains': {k: ch[k] for k in sorted(p['keys'])}}
        if c not in out:
            out.append(c)
    cache[owner] = out
    return out


# on the way back: allowed between rec['k'] and the constructor argument / attribute it ends in
LOADER_LOSSLESS_FUNCS = ('list', 'tuple', 'dict')


class MethodLoaderScan(object):
    """per key read from the record by a __setgluestate__ method: the transformations applied to the stored value until it ends as a
    constructor argument / an attribute of the new object (following locals and comprehension variables)"""

    def __init__(self, owner):
        self.owner = owner
        f = owner.__dict__['__setgluestate__']
        f = getattr(f, '__func__', f)
        self.fn = fn_node(f)
        a = self.fn.args.args
        if len(a) < 3:
            raise Uninterpretable('%s.__setgluestate__ takes fewer than 3 arguments' % qn(owner))
        self.cls, self.rec, self.ctx = a[0].arg, a[1].arg, a[2].arg
        self.parent = {}
        for n in ast.walk(self.fn):
            for c in ast.iter_child_nodes(n):
                self.parent[c] = n
        self.reads = {}      # key -> [transformation names]
        self.ends = {}       # key -> [where the value ends]
        self.dynamic = False

    def note(self, key, name):
        if name not in self.reads[key]:
            self.reads[key].append(name)

    def uses_of(self, name, scope):
        return [n for n in ast.walk(scope) if isinstance(n, ast.Name) and n.id == name and isinstance(n.ctx, ast.Load)]

    def climb(self, n, key, seen):
        while True:
            p = self.parent.get(n)
            if p is None or isinstance(p, (ast.Return, ast.Expr, ast.FunctionDef)):
                return
            if isinstance(p, ast.keyword) or isinstance(p, ast.Starred):
                n = p
                continue
            if isinstance(p, ast.Call):
                f = p.func
                if n is f or (isinstance(f, ast.Attribute) and n is f.value):
                    return      # handled at the Attribute
                if isinstance(f, ast.Attribute) and isinstance(f.value, ast.Name) and f.value.id == self.ctx and f.attr == 'object':
                    n = p
                    continue
                if isinstance(f, ast.Attribute) and isinstance(f.value, ast.Name) and f.value.id in ('np', 'numpy') and f.attr == 'asarray' and len(p.args) == 1 and not p.keywords:
                    n = p
                    continue
                if isinstance(f, ast.Name) and f.id in LOADER_LOSSLESS_FUNCS and len(p.args) == 1 and not p.keywords:
                    n = p
                    continue
                if isinstance(f, ast.Name) and (f.id == self.cls or f.id == self.owner.__name__ or f.id in [k.__name__ for k in self.owner.__mro__]):
                    return      # a constructor argument
                self.note(key, '%s()' % unparse(f))
                n = p
                continue
            if isinstance(p, ast.Attribute):
                gp = self.parent.get(p)
                if isinstance(gp, ast.Call) and gp.func is p:
                    if p.attr in ('items',) and not gp.args:
                        n = gp
                        continue
                    if p.attr == 'get' and isinstance(n, ast.Name) and n.id == self.rec:
                        return
                    self.note(key, '.%s()' % p.attr)
                    n = gp
                    continue
                self.note(key, '.%s' % p.attr)
                n = p
                continue
            if isinstance(p, ast.Subscript):
                if n is p.value:
                    self.note(key, 'slice' if isinstance(p.slice, ast.Slice) else 'index')
                    n = p
                    continue
                self.note(key, 'used-as-index')
                return
            if isinstance(p, ast.comprehension):
                if n is p.iter:
                    comp = self.parent.get(p)
                    for t in ast.walk(p.target):
                        if isinstance(t, ast.Name):
                            for u in self.uses_of(t.id, comp):
                                self.climb(u, key, seen)
                    return
                self.note(key, 'filter')
                return
            if isinstance(p, (ast.ListComp, ast.SetComp, ast.GeneratorExp, ast.DictComp, ast.List, ast.Tuple, ast.Dict)):
                n = p
                continue
            if isinstance(p, ast.IfExp):
                if n is p.test:
                    self.note(key, 'test')
                    return
                n = p
                continue
            if isinstance(p, (ast.Compare, ast.BoolOp, ast.If, ast.While)):
                self.note(key, 'test')
                return
            if isinstance(p, ast.Assign):
                for t in p.targets:
                    if isinstance(t, ast.Name):
                        if t.id in seen:
                            continue
                        for u in self.uses_of(t.id, self.fn):
                            self.climb(u, key, seen + (t.id,))
                    elif isinstance(t, (ast.Tuple, ast.List)):
                        self.note(key, 'unpacked')
                return
            if isinstance(p, (ast.BinOp, ast.UnaryOp)):
                self.note(key, 'arith:' + type(p.op).__name__)
                n = p
                continue
            self.note(key, 'expr:' + type(p).__name__)
            return

    def run(self):
        for n in ast.walk(self.fn):
            key = None
            if isinstance(n, ast.Subscript) and isinstance(n.value, ast.Name) and n.value.id == self.rec and isinstance(n.ctx, ast.Load):
                key = const_str(n.slice)
                if key is None:
                    self.dynamic = True
                    continue
            elif isinstance(n, ast.Call) and isinstance(n.func, ast.Attribute) and n.func.attr == 'get' and isinstance(n.func.value, ast.Name) \
                    and n.func.value.id == self.rec and n.args:
                key = const_str(n.args[0])
                if key is None:
                    self.dynamic = True
                    continue
            if key is not None:
                self.reads.setdefault(key, [])
                self.climb(n, key, ())
        return {'reads': {k: self.reads[k] for k in sorted(self.reads)}, 'dynamic': self.dynamic}


def collect_methods(T):
    """the __gluestate__ / __setgluestate__ providers of every class of the class table (classes of the package only)"""
    pkgdir = os.path.join(T['repo'], 'glue')
    gs_owners, sgs_owners, pairs = [], [], []
    for row in T['classes']:
        c = row['cls']
        g = gen_tables.provider(c, '__gluestate__')
        sg = gen_tables.provider(c, '__setgluestate__')
        if g is not None and in_package(g, pkgdir) and g not in gs_owners:
            gs_owners.append(g)
        if sg is not None and in_package(sg, pkgdir) and sg not in sgs_owners:
            sgs_owners.append(sg)
        if row['in_pkg'] and g is not None and sg is not None and in_package(g, pkgdir) and in_package(sg, pkgdir):
            if (qn(g), qn(sg)) not in pairs:
                pairs.append((qn(g), qn(sg)))
    cache = {}
    savers = [{'cls': qn(o), 'paths': analyse_method_saver(o, pkgdir, cache)} for o in sorted(gs_owners, key=qn)]
    loaders = [dict(cls=qn(o), **MethodLoaderScan(o).run()) for o in sorted(sgs_owners, key=qn)]
    return {'savers': savers, 'loaders': loaders, 'pairs': sorted(pairs)}


def cs(s):
    return '"%s"' % s.replace('"', '""')


def sl(xs):
    return '[' + '; '.join(cs(x) for x in xs) + ']'


def render_methods(M):
    out = []
    out.append('(* GENERATED by tools/gen/gen_codecs.py from the working tree of the package -- do not edit.\n'
               '   __gluestate__ / __setgluestate__ method pairs of the classes of the class table: per saver path and key, the attributes of\n'
               '   the instance the stored value is computed from and the transformations on the way that are not on the lossless list\n'
               '   (attribute access, np.asarray, .tolist(), .items(), list / tuple / dict / str / float / int, displays, comprehensions and map\n'
               '   without filter, context.id / context.do); per loader and key, the transformations between rec[key] and the constructor\n'
               '   argument / attribute beyond context.object, np.asarray, list / tuple / dict, displays, comprehensions. *)')
    out.append('From Coq Require Import List Bool String.\nImport ListNotations.\nLocal Open Scope string_scope.\n')
    out.append('Record mkey := mkMKey { mk_key : string; mk_sources : list string; mk_lossy : list string }.')
    out.append('Record mspath := mkMSPath { msp_dynamic : bool; msp_keys : list mkey }.')
    out.append('Record msaver := mkMS { ms_cls : string; ms_paths : list mspath }.')
    out.append('Definition method_savers : list msaver := [')
    rows = []
    for r in M['savers']:
        ps = []
        for p in r['paths']:
            ks = '; '.join('mkMKey %s %s %s' % (cs(k), sl(p['chains'][k][0]), sl(p['chains'][k][1])) for k in p['keys'])
            ps.append('mkMSPath %s [%s]' % (b(p['dynamic']), ks))
        rows.append('  mkMS %s [%s]' % (cs(r['cls']), ';\n    '.join(ps)))
    out.append(';\n'.join(rows))
    out.append('].\n')
    out.append('Record mread := mkMRead { mr_key : string; mr_steps : list string }.')
    out.append('Record mloader := mkML { ml_cls : string; ml_dynamic : bool; ml_reads : list mread }.')
    out.append('Definition method_loaders : list mloader := [')
    rows = []
    for r in M['loaders']:
        rows.append('  mkML %s %s [%s]' % (cs(r['cls']), b(r['dynamic']), '; '.join('mkMRead %s %s' % (cs(k), sl(v)) for k, v in r['reads'].items())))
    out.append(';\n'.join(rows))
    out.append('].\n')
    out.append('(* (provider of __gluestate__, provider of __setgluestate__) for the concrete classes of the class table *)')
    out.append('Definition method_pairs : list (string * string) := [')
    out.append(';\n'.join('  (%s, %s)' % (cs(a), cs(bb)) for a, bb in M['pairs']))
    out.append('].')
    return '\n'.join(out) + '\n'


def write_if_changed(out_path, text):
    tmp = out_path + '.tmp'
    with open(tmp, 'w') as f:
        f.write(text)
    if not os.path.exists(out_path) or open(out_path).read() != text:
        os.replace(tmp, out_path)
    else:
        os.remove(tmp)


# ------------------------------------------------------------------ collect / render
def collect(repo=None):
    T = gen_tables.collect(repo)
    pkgdir = os.path.join(T['repo'], 'glue')
    from glue.core import state as S
    src = inspect.getsource(S.GlueSerializer.do)
    if "result['_type']" not in src or "result['_protocol']" not in src:
        raise Uninterpretable('GlueSerializer.do no longer writes _type / _protocol into every record')
    scache, lcache = {}, {}
    funcs_of = {}

    def module_funcs(f):
        m = sys.modules[f.__module__]
        if m not in funcs_of:
            funcs_of[m] = {k: v for k, v in vars(m).items() if inspect.isfunction(v) and v.__module__ == m.__name__}
        return funcs_of[m]
    savers, loaders = [], []
    for row in T['savers']:
        for v in row['versions']:
            f = row['funcs'][v]
            if not in_package(f, pkgdir):
                raise Uninterpretable('saver %r for %s is not defined in the package' % (f, row['name']))
            savers.append({'cls': row['name'], 'version': v, 'func': f.__name__, 'paths': analyse_saver(f, module_funcs(f), scache)})
    for row in T['loaders']:
        for v in row['versions']:
            f = row['funcs'][v]
            if not in_package(f, pkgdir):
                raise Uninterpretable('loader %r for %s is not defined in the package' % (f, row['name']))
            loaders.append({'cls': row['name'], 'version': v, 'func': f.__name__, 'paths': analyse_loader(f, row['cls'], module_funcs(f), lcache)})
    names = {}

    def N(s):
        if s not in names:
            names[s] = len(names)
        return names[s]
    for k in FRAMEWORK_KEYS:
        N(k)
    for r in savers:
        N(r['cls'])
        for p in r['paths']:
            for k in p['keys']:
                N(k)
    for r in loaders:
        N(r['cls'])
        for p in r['paths']:
            for k in p['present'] + p['absent'] + p['reads']:
                N(k)
            for nm, _ in (p['ctor'] or []):
                N(nm)
    for w in T['write_only']:
        N(w)
    return {'savers': savers, 'loaders': loaders, 'names': names, 'write_only': T['write_only'], 'repo': T['repo'], 'methods': collect_methods(T)}


def zl(xs):
    return '[' + '; '.join(str(int(x)) for x in xs) + ']'


def b(x):
    return 'true' if x else 'false'


def render(C):
    n = C['names']
    out = []
    out.append('(* GENERATED by tools/gen/gen_codecs.py from the working tree of the package -- do not edit.\n'
               '   Field-level table of the registered saver / loader functions: record keys written per path, keys read per path. *)')
    out.append('From Coq Require Import ZArith List Bool String.\nImport ListNotations.\nLocal Open Scope Z_scope.\nLocal Open Scope string_scope.\n')
    out.append('Definition cnames : list (Z * string) := [')
    out.append(';\n'.join('  (%d, "%s")' % (i, s.replace('"', '""')) for s, i in sorted(n.items(), key=lambda kv: kv[1])))
    out.append('].\n')
    out.append('Definition framework_keys : list Z := %s.\n' % zl(n[k] for k in FRAMEWORK_KEYS))
    out.append('Definition codec_write_only : list Z := %s.\n' % zl(n[w] for w in C['write_only']))
    out.append('(* one path through a saver: the keys it writes, each with "the stored value depends on a test"; sp_dynamic: a key is computed *)')
    out.append('Record spath := mkSPath { sp_dynamic : bool; sp_keys : list (Z * bool) }.')
    out.append('Record saver_codec := mkSC { sc_cls : Z; sc_ver : Z; sc_paths : list spath }.')
    out.append('Definition saver_codecs : list saver_codec := [')
    rows = []
    for r in C['savers']:
        ps = '; '.join('mkSPath %s [%s]' % (b(p['dynamic']), '; '.join('(%d, %s)' % (n[k], b(v)) for k, v in p['keys'].items())) for p in r['paths'])
        rows.append('  (* %s v%d  %s *)\n  mkSC %d %d [%s]' % (r['cls'], r['version'], r['func'], n[r['cls']], r['version'], ps))
    out.append(';\n'.join(rows))
    out.append('].\n')
    out.append('(* one path through a loader: keys tested present / absent on the way, keys read unguarded, a computed key is read,\n'
               '   and, when the path calls the class: per __init__ parameter, is the argument computed from the record? *)')
    out.append('Record lpath := mkLPath { lp_present : list Z; lp_absent : list Z; lp_reads : list Z; lp_dynamic : bool; lp_ctor : option (list (Z * bool)) }.')
    out.append('Record loader_codec := mkLC { lc_cls : Z; lc_ver : Z; lc_paths : list lpath }.')
    out.append('Definition loader_codecs : list loader_codec := [')
    rows = []
    for r in C['loaders']:
        ps = []
        for p in r['paths']:
            ctor = 'None' if p['ctor'] is None else '(Some [%s])' % '; '.join('(%d, %s)' % (n[nm], b(fed)) for nm, fed in p['ctor'])
            ps.append('mkLPath %s %s %s %s %s' % (zl(n[k] for k in p['present']), zl(n[k] for k in p['absent']), zl(n[k] for k in p['reads']), b(p['dynamic']), ctor))
        rows.append('  (* %s v%d  %s *)\n  mkLC %d %d [%s]' % (r['cls'], r['version'], r['func'], n[r['cls']], r['version'], ';\n    '.join(ps)))
    out.append(';\n'.join(rows))
    out.append('].')
    return '\n'.join(out) + '\n'


def generate(out_path):
    C = collect()
    text = render(C)
    tmp = out_path + '.tmp'
    with open(tmp, 'w') as f:
        f.write(text)
    if not os.path.exists(out_path) or open(out_path).read() != text:
        os.replace(tmp, out_path)
    else:
        os.remove(tmp)
    # the method pairs go to their own file: Gen_codecs.v keeps its text
    write_if_changed(os.path.join(os.path.dirname(out_path), 'Gen_methodcodecs.v'), render_methods(C['methods']))
    return C


if __name__ == '__main__':
    out = sys.argv[1] if len(sys.argv) > 1 else os.path.join(os.path.dirname(os.path.dirname(HERE)), 'coq/gen/Gen_codecs.v')
    try:
        C = generate(out)
    except Uninterpretable as e:
        print('CODECS-FAILED: %s' % e)
        sys.exit(3)
    print('ok %s: %d names, %d saver rows (%d paths), %d loader rows (%d paths)' % (
        out, len(C['names']), len(C['savers']), sum(len(r['paths']) for r in C['savers']), len(C['loaders']), sum(len(r['paths']) for r in C['loaders'])))
    print('ok Gen_methodcodecs.v: %d __gluestate__ providers, %d __setgluestate__ providers, %d pairs' % (
        len(C['methods']['savers']), len(C['methods']['loaders']), len(C['methods']['pairs'])))
