#!/usr/bin/env python3
"""
Regenerate coq/gen/Gen_exporters.v from the CURRENT source of glue's three exporter functions

    glue/core/data_exporters/astropy_table.py   data_to_astropy_table   (CSV, FITS table, VO table, IPAC, LaTeX)
    glue/core/data_exporters/hdf5.py            hdf5_writer
    glue/core/data_exporters/gridded_fits.py    fits_writer

translated statement by statement / expression by expression into Gallina over the abstract objects of coq/C19/ExportSem.v.
Every function becomes  `Definition f enc sub data components : option (list ...)`  (None = an unbound local was read) plus one
`Fixpoint f_loop` per `for` loop (recursion over the list iterated; every variable bound at loop entry is an argument, `continue`
and the end of the body are the recursive call, the statements after the loop are the nil case).  `if` is translated by
expanding both branches with the rest of the block, so each path of the Python function is one path of the Gallina term.

FAIL-CLOSED.  Accepted forms (anything else aborts with the line number, exit status 3):

statements
  docstring; import / from-import; warnings.warn(...)                       no effect
  if T: ... [elif/else: ...]                                                 if T then .. else ..   (see tests)
  for cid in data.main_components + data.derived_components: ...            f_loop ... (main_components data ++ derived_components data)
  continue                                                                   the recursive call (nothing may follow in the block)
  mask = data.to_mask()                 (data known to be a Subset)          mask := Some (to_mask sub)
  mask = None                                                                mask := None
  data = data.data                      (data known to be a Subset)          data is the dataset from here on
  table = Table() | f = File(filename, 'w') | hdus = fits.HDUList()          X := []
  values = <array expression>                                                values := ..
  values[~mask] = <value>  /  values[mask] = <value>                         values := arr_fill values (oget mask) v  /  (map negb (oget mask))
  table[cid.label] = values | f.create_dataset(cid.label, data=values)       X := X ++ [(d_name cid, values)]
  blank = None | blank = <value>                                             blank := PNone | PSome v      (blank starts as PUnbound)
  data_header = <header expression> | header = <header expression>
  comp = data.get_component(cid)                                             comp := d_name cid
  header['BLANK'] = blank                                                    header := hdr_set_blank header z   (blank must be PSome z, else None)
  hdu = fits.ImageHDU(values, name=cid.label, header=header)                 hdu := (d_name cid, values, header)
  hdus.append(hdu)                                                           hdus := hdus ++ [hdu]
  return table | f.close() | try: hdus.writeto(filename, ..) except TypeError: hdus.writeto(filename, ..)
                                                                             the result: Some X   (must be the last statement, outside the loop)
tests
  isinstance(data, Subset)   (narrows data: Subset in the branch, dataset in the else branch)      is_subset sub
  isinstance(data, Data)                                                     ds_is_data data
  isinstance(data.coords, WCS)                                               ds_has_wcs data
  X is None / X is not None      X in mask, components                       is_none X / negb (is_none X)
  blank is None / blank is not None                                          match blank with PUnbound => None | PNone => .. | PSome _ => .. end
  cid in components / cid not in components                                  cid_in cid components
  data.get_kind(cid) == / != '<kind>'                                        d_gkind cid =? code
  values.dtype.kind == / != '<letter>'                                       a_kind values =? code
  values.ndim <cmp> <int>                                                    a_ndim values <cmp> int
  A and B, A or B, not A                                                     && / || / negb; expanded into nested ifs when blank is involved
array expressions
  data[cid]                                                                  fetch data cid None
  data[cid, mask]                                                            fetch data cid mask           (a DIFFERENT node: the link function sees the selected rows only)
  E[mask] / E[~mask]                                                         arr_pick E (oget mask) / (map negb (oget mask))
  E.copy()                                                                   arr_copy E
  np.char.encode(E, encoding='ascii', errors='replace')                      arr_encode enc E
values
  <int literal>; np.nan -> NAN; '' -> EMPTY; np.iinfo(values.dtype).min -> a_imin values; blank (must be PSome z)
header expressions
  fits.Header() -> hdr_empty; data.coords.to_header() -> hdr_wcs; A if T else B; make_component_header(comp, data_header) -> hdr_component comp data_header
"""
import ast
import os
import sys

REPO = os.environ.get('GLUE_REPO', '/repo')
HERE = os.path.dirname(os.path.abspath(__file__))
OUT = os.path.join(os.path.dirname(os.path.dirname(HERE)), 'coq/gen/Gen_exporters.v')
FUNCS = [('glue/core/data_exporters/astropy_table.py', 'data_to_astropy_table', 'wds'),
         ('glue/core/data_exporters/hdf5.py', 'hdf5_writer', 'wds'),
         ('glue/core/data_exporters/gridded_fits.py', 'fits_writer', 'whdu')]

GKINDS = {'numerical': 0, 'categorical': 1, 'datetime': 2, 'extended': 3}
DKINDS = {'f': 0, 'i': 1, 'U': 2, 'S': 3, 'u': 4, 'b': 5, 'O': 6, 'M': 7, 'm': 8, 'c': 9, 'V': 10}
CMP = {ast.Eq: '=?', ast.Lt: '<?', ast.LtE: '<=?', ast.Gt: '>?', ast.GtE: '>=?'}
# local variables the exporters may use, with their Gallina types
VAR_TYPES = {'mask': 'omask', 'values': 'arr', 'blank': 'pyopt', 'table': 'list:wds', 'f': 'list:wds', 'hdus': 'list:whdu',
             'data_header': 'hdr', 'header': 'hdr', 'comp': 'Z', 'hdu': 'whdu'}
COQ_TYPE = {'omask': 'option (list bool)', 'ocomps': 'option (list Z)', 'dset': 'dset', 'arr': 'arr', 'pyopt': 'pyopt',
            'list:wds': 'list wds', 'list:whdu': 'list whdu', 'hdr': 'hdr', 'Z': 'Z', 'whdu': 'whdu'}
CONSTRUCTORS = {'Table()': 'list:wds', "File(filename, 'w')": 'list:wds', 'fits.HDUList()': 'list:whdu'}


class Unsupported(Exception):
    pass


class NotPure(Exception):
    """a test that reads `blank` (possibly unbound): cannot be one boolean expression"""


def fail(node, why):
    raise Unsupported('line %s: %s: %s' % (getattr(node, 'lineno', '?'), why, ast.unparse(node)[:160]))


def is_name(e, name=None):
    return isinstance(e, ast.Name) and (name is None or e.id == name)


def is_none_const(e):
    return isinstance(e, ast.Constant) and e.value is None


class Fn(object):
    def __init__(self, fn, elt, path):
        self.fn = fn
        self.name = fn.name
        self.elt = elt
        self.path = path
        self.loops = {}       # id(for node) -> (loop name, [(var, type)])
        self.defs = []

    # ------------------------------------------------------------ variables
    def var(self, e, env, typ):
        if not isinstance(e, ast.Name):
            fail(e, 'a variable of type %s expected' % typ)
        if e.id not in env:
            fail(e, 'variable is not bound on this path')
        if env[e.id] != typ:
            fail(e, 'variable of type %s where %s is needed' % (env[e.id], typ))
        return e.id

    def cid(self, e, env):
        if not (is_name(e, 'cid') and env.get('cid') == 'cid'):
            fail(e, 'the loop variable cid expected')
        return 'cid'

    def cid_label(self, e, env):
        if not (isinstance(e, ast.Attribute) and e.attr == 'label'):
            fail(e, 'cid.label expected')
        return '(d_name %s)' % self.cid(e.value, env)

    def keep_mask(self, e, env, target):
        """the index of values[...]: mask -> elements where mask; ~mask -> elements where not mask.
        As a store target `values[~mask] = x` keeps the elements where mask."""
        if isinstance(e, ast.UnaryOp) and isinstance(e.op, ast.Invert):
            m = self.var(e.operand, env, 'omask')
            return '(oget %s)' % m if target else '(map negb (oget %s))' % m
        m = self.var(e, env, 'omask')
        return '(map negb (oget %s))' % m if target else '(oget %s)' % m

    # ------------------------------------------------------------ expressions
    def arr(self, e, env):
        if isinstance(e, ast.Name):
            return self.var(e, env, 'arr')
        if isinstance(e, ast.Subscript):
            if is_name(e.value, 'data'):
                if env.get('data') != 'dset':
                    fail(e, 'data is not known to be a dataset here')
                if isinstance(e.slice, ast.Tuple):
                    if len(e.slice.elts) != 2:
                        fail(e, 'data[cid, view]')
                    return '(fetch data %s %s)' % (self.cid(e.slice.elts[0], env), self.var(e.slice.elts[1], env, 'omask'))
                return '(fetch data %s None)' % self.cid(e.slice, env)
            return '(arr_pick %s %s)' % (self.arr(e.value, env), self.keep_mask(e.slice, env, False))
        if isinstance(e, ast.Call):
            f = ast.unparse(e.func)
            if isinstance(e.func, ast.Attribute) and e.func.attr == 'copy' and not e.args and not e.keywords:
                return '(arr_copy %s)' % self.arr(e.func.value, env)
            if f == 'np.char.encode':
                kw = dict((k.arg, ast.unparse(k.value)) for k in e.keywords)
                if len(e.args) != 1 or kw != {'encoding': "'ascii'", 'errors': "'replace'"}:
                    fail(e, "np.char.encode(E, encoding='ascii', errors='replace') expected")
                return '(arr_encode enc %s)' % self.arr(e.args[0], env)
        fail(e, 'array expression')

    def value(self, e, env):
        """-> (text, wrap) ; wrap is None or the name of the pyopt variable that must be PSome"""
        if isinstance(e, ast.Constant):
            if isinstance(e.value, bool) or e.value is None:
                fail(e, 'value')
            if isinstance(e.value, int):
                return ('%d' % e.value if e.value >= 0 else '(%d)' % e.value), None
            if e.value == '':
                return 'EMPTY', None
            fail(e, 'value')
        txt = ast.unparse(e)
        if txt == 'np.nan':
            return 'NAN', None
        if isinstance(e, ast.Attribute) and e.attr == 'min' and isinstance(e.value, ast.Call) and ast.unparse(e.value.func) == 'np.iinfo' \
                and len(e.value.args) == 1 and not e.value.keywords and isinstance(e.value.args[0], ast.Attribute) \
                and e.value.args[0].attr == 'dtype':
            return '(a_imin %s)' % self.arr(e.value.args[0].value, env), None
        if isinstance(e, ast.Name) and env.get(e.id) == 'pyopt':
            return e.id + '_z', e.id
        fail(e, 'value')

    def with_value(self, e, env, body):
        """body(text) -> text, wrapped in the match that makes a pyopt variable an integer"""
        txt, wrap = self.value(e, env)
        if wrap is None:
            return body(txt)
        return 'match %s with\n| PSome %s_z =>\n%s\n| _ => None\nend' % (wrap, wrap, body(txt))

    def hdr(self, e, env):
        txt = ast.unparse(e)
        if txt == 'fits.Header()':
            return 'hdr_empty'
        if txt == 'data.coords.to_header()':
            if env.get('data') != 'dset':
                fail(e, 'data is not known to be a dataset here')
            return 'hdr_wcs'
        if isinstance(e, ast.IfExp):
            return '(if %s then %s else %s)' % (self.bexpr(e.test, env), self.hdr(e.body, env), self.hdr(e.orelse, env))
        if isinstance(e, ast.Call) and ast.unparse(e.func) == 'make_component_header' and len(e.args) == 2 and not e.keywords:
            return '(hdr_component %s %s)' % (self.var(e.args[0], env, 'Z'), self.var(e.args[1], env, 'hdr'))
        if isinstance(e, ast.Name):
            return self.var(e, env, 'hdr')
        fail(e, 'header expression')

    def bexpr(self, e, env):
        """a test as one boolean expression (raises NotPure when it reads a possibly-unbound local)"""
        if isinstance(e, ast.BoolOp):
            op = ' && ' if isinstance(e.op, ast.And) else ' || '
            return '(' + op.join(self.bexpr(v, env) for v in e.values) + ')'
        if isinstance(e, ast.UnaryOp) and isinstance(e.op, ast.Not):
            return '(negb %s)' % self.bexpr(e.operand, env)
        if isinstance(e, ast.Call) and ast.unparse(e.func) == 'isinstance' and len(e.args) == 2 and not e.keywords:
            a, b = ast.unparse(e.args[0]), ast.unparse(e.args[1])
            if (a, b) == ('data', 'Subset'):
                if env.get('data') != 'obj':
                    fail(e, 'isinstance(data, Subset) after data was rebound')
                return '(is_subset sub)'
            if env.get('data') != 'dset':
                fail(e, 'data is not known to be a dataset here')
            if (a, b) == ('data', 'Data'):
                return '(ds_is_data data)'
            if (a, b) == ('data.coords', 'WCS'):
                return '(ds_has_wcs data)'
            fail(e, 'isinstance test')
        if isinstance(e, ast.Compare) and len(e.ops) == 1:
            op, l, r = e.ops[0], e.left, e.comparators[0]
            if isinstance(op, (ast.Is, ast.IsNot)) and is_none_const(r) and isinstance(l, ast.Name):
                if env.get(l.id) == 'pyopt':
                    raise NotPure()
                if l.id not in env or env[l.id] not in ('omask', 'ocomps'):
                    fail(e, 'is None test on this variable')
                t = '(is_none %s)' % l.id
                return t if isinstance(op, ast.Is) else '(negb %s)' % t
            if isinstance(op, (ast.In, ast.NotIn)):
                t = '(cid_in %s %s)' % (self.cid(l, env), self.var(r, env, 'ocomps'))
                return t if isinstance(op, ast.In) else '(negb %s)' % t
            lt = ast.unparse(l)
            if isinstance(op, (ast.Eq, ast.NotEq)) and isinstance(r, ast.Constant) and isinstance(r.value, str):
                if isinstance(l, ast.Call) and ast.unparse(l.func) == 'data.get_kind' and len(l.args) == 1 and not l.keywords:
                    if env.get('data') != 'dset':
                        fail(e, 'data is not known to be a dataset here')
                    if r.value not in GKINDS:
                        fail(e, 'unknown glue kind')
                    t = '(d_gkind %s =? %d)' % (self.cid(l.args[0], env), GKINDS[r.value])
                elif isinstance(l, ast.Attribute) and l.attr == 'kind' and isinstance(l.value, ast.Attribute) and l.value.attr == 'dtype':
                    if r.value not in DKINDS:
                        fail(e, 'unknown dtype kind')
                    t = '(a_kind %s =? %d)' % (self.arr(l.value.value, env), DKINDS[r.value])
                else:
                    fail(e, 'comparison with a string')
                return t if isinstance(op, ast.Eq) else '(negb %s)' % t
            if isinstance(l, ast.Attribute) and l.attr == 'ndim' and isinstance(r, ast.Constant) and isinstance(r.value, int) \
                    and not isinstance(r.value, bool):
                a = '(a_ndim %s)' % self.arr(l.value, env)
                if type(op) in CMP:
                    return '(%s %s %d)' % (a, CMP[type(op)], r.value)
                if isinstance(op, ast.NotEq):
                    return '(negb (%s =? %d))' % (a, r.value)
            fail(e, 'comparison (%s)' % lt)
        fail(e, 'test')

    def test(self, e, env, then, els):
        """then / els : env -> text"""
        try:
            b = self.bexpr(e, env)
        except NotPure:
            b = None
        if b is not None:
            env1, env2 = env, env
            if b == '(is_subset sub)':
                env1 = dict(env, data='subset')
                env2 = dict(env, data='dset')
            return 'if %s then\n%s\nelse\n%s' % (b, then(env1), els(env2))
        if isinstance(e, ast.BoolOp) and isinstance(e.op, ast.And):
            rest = e.values[1:]
            nxt = rest[0] if len(rest) == 1 else ast.BoolOp(op=ast.And(), values=rest)
            return self.test(e.values[0], env, lambda en: self.test(nxt, en, then, els), els)
        if isinstance(e, ast.BoolOp) and isinstance(e.op, ast.Or):
            rest = e.values[1:]
            nxt = rest[0] if len(rest) == 1 else ast.BoolOp(op=ast.Or(), values=rest)
            return self.test(e.values[0], env, then, lambda en: self.test(nxt, en, then, els))
        if isinstance(e, ast.UnaryOp) and isinstance(e.op, ast.Not):
            return self.test(e.operand, env, els, then)
        if isinstance(e, ast.Compare) and len(e.ops) == 1 and isinstance(e.ops[0], (ast.Is, ast.IsNot)) and is_none_const(e.comparators[0]) \
                and isinstance(e.left, ast.Name) and env.get(e.left.id) == 'pyopt':
            a, b = (then, els) if isinstance(e.ops[0], ast.Is) else (els, then)
            return 'match %s with\n| PUnbound => None\n| PNone =>\n%s\n| PSome _ =>\n%s\nend' % (e.left.id, a(env), b(env))
        fail(e, 'test')

    # ------------------------------------------------------------ statements
    def let(self, env, name, typ, text, k):
        if name in env and env[name] != typ:
            raise Unsupported('variable %s changes type' % name)
        env2 = dict(env)
        env2[name] = typ
        return 'let %s := %s in\n%s' % (name, text, k(env2))

    def block(self, stmts, env, tail, in_loop):
        if not stmts:
            return tail(env)
        s, rest = stmts[0], stmts[1:]

        def k(env2):
            return self.block(rest, env2, tail, in_loop)

        def last(what):
            if rest:
                fail(rest[0], 'code after %s' % what)

        if isinstance(s, ast.Expr) and isinstance(s.value, ast.Constant) and isinstance(s.value.value, str):
            return k(env)
        if isinstance(s, (ast.Import, ast.ImportFrom)):
            return k(env)
        if isinstance(s, ast.If):
            return self.test(s.test, env,
                             lambda en: self.block(s.body, en, k, in_loop),
                             lambda en: self.block(s.orelse, en, k, in_loop))
        if isinstance(s, ast.Continue):
            last('continue')
            if not in_loop:
                fail(s, 'continue outside the loop')
            return in_loop(env)
        if isinstance(s, ast.For):
            if in_loop:
                fail(s, 'nested loop')
            return self.loop(s, rest, env, tail)
        if isinstance(s, ast.Return):
            last('return')
            if in_loop:
                fail(s, 'return inside the loop')
            if not (isinstance(s.value, ast.Name) and env.get(s.value.id) == 'list:' + self.elt):
                fail(s, 'return of the container expected')
            return 'Some %s' % s.value.id
        if isinstance(s, ast.Try):
            last('the write')
            if in_loop:
                fail(s, 'try inside the loop')
            calls = [s.body] + [h.body for h in s.handlers]
            if s.orelse or s.finalbody or not s.handlers or any(ast.unparse(h.type) != 'TypeError' or h.name for h in s.handlers):
                fail(s, 'try: X.writeto(filename, ..) except TypeError: X.writeto(filename, ..) expected')
            names = set()
            for b in calls:
                if not (len(b) == 1 and isinstance(b[0], ast.Expr) and isinstance(b[0].value, ast.Call)
                        and isinstance(b[0].value.func, ast.Attribute) and b[0].value.func.attr == 'writeto'
                        and isinstance(b[0].value.func.value, ast.Name) and len(b[0].value.args) == 1 and is_name(b[0].value.args[0], 'filename')):
                    fail(s, 'X.writeto(filename, ..) expected')
                names.add(b[0].value.func.value.id)
            if len(names) != 1 or env.get(list(names)[0]) != 'list:' + self.elt:
                fail(s, 'one container written')
            return 'Some %s' % list(names)[0]
        if isinstance(s, ast.Expr) and isinstance(s.value, ast.Call):
            c = s.value
            f = ast.unparse(c.func)
            if f == 'warnings.warn':
                return k(env)
            if isinstance(c.func, ast.Attribute) and isinstance(c.func.value, ast.Name):
                obj, meth = c.func.value.id, c.func.attr
                if meth == 'close' and not c.args and not c.keywords and env.get(obj) == 'list:' + self.elt:
                    last('close')
                    if in_loop:
                        fail(s, 'close inside the loop')
                    return 'Some %s' % obj
                if meth == 'create_dataset' and env.get(obj) == 'list:wds' and len(c.args) == 1 and len(c.keywords) == 1 and c.keywords[0].arg == 'data':
                    return self.let(env, obj, 'list:wds', '%s ++ [(%s, %s)]' % (obj, self.cid_label(c.args[0], env), self.arr(c.keywords[0].value, env)), k)
                if meth == 'append' and env.get(obj) == 'list:whdu' and len(c.args) == 1 and not c.keywords:
                    return self.let(env, obj, 'list:whdu', '%s ++ [%s]' % (obj, self.var(c.args[0], env, 'whdu')), k)
            fail(s, 'call statement')
        if isinstance(s, ast.Assign) and len(s.targets) == 1:
            t, v = s.targets[0], s.value
            if isinstance(t, ast.Subscript) and isinstance(t.value, ast.Name):
                obj = t.value.id
                typ = env.get(obj)
                if typ == 'arr':
                    keep = self.keep_mask(t.slice, env, True)
                    return self.with_value(v, env, lambda x: self.let(env, obj, 'arr', 'arr_fill %s %s %s' % (obj, keep, x), k))
                if typ == 'list:wds':
                    return self.let(env, obj, typ, '%s ++ [(%s, %s)]' % (obj, self.cid_label(t.slice, env), self.arr(v, env)), k)
                if typ == 'hdr' and isinstance(t.slice, ast.Constant) and t.slice.value == 'BLANK':
                    return self.with_value(v, env, lambda x: self.let(env, obj, 'hdr', 'hdr_set_blank %s %s' % (obj, x), k))
                fail(s, 'store')
            if isinstance(t, ast.Name):
                name = t.id
                if name == 'data':
                    if ast.unparse(v) != 'data.data' or env.get('data') != 'subset':
                        fail(s, 'data = data.data inside the isinstance(data, Subset) branch expected')
                    return self.block(rest, dict(env, data='dset'), tail, in_loop)
                if name not in VAR_TYPES:
                    fail(s, 'assignment to an unknown local')
                typ = VAR_TYPES[name]
                if typ == 'omask':
                    if is_none_const(v):
                        return self.let(env, name, typ, 'None', k)
                    if ast.unparse(v) == 'data.to_mask()' and env.get('data') == 'subset':
                        return self.let(env, name, typ, 'Some (to_mask sub)', k)
                    fail(s, 'mask = data.to_mask() (data a Subset) or mask = None expected')
                if typ == 'arr':
                    return self.let(env, name, typ, self.arr(v, env), k)
                if typ == 'pyopt':
                    if is_none_const(v):
                        return self.let(env, name, typ, 'PNone', k)
                    return self.with_value(v, env, lambda x: self.let(env, name, typ, 'PSome %s' % x, k))
                if typ.startswith('list:'):
                    if in_loop or typ != 'list:' + self.elt or CONSTRUCTORS.get(ast.unparse(v)) != typ:
                        fail(s, 'container construction')
                    return self.let(env, name, typ, '[]', k)
                if typ == 'hdr':
                    return self.let(env, name, typ, self.hdr(v, env), k)
                if typ == 'Z':
                    if not (isinstance(v, ast.Call) and ast.unparse(v.func) == 'data.get_component' and len(v.args) == 1 and not v.keywords
                            and env.get('data') == 'dset'):
                        fail(s, 'comp = data.get_component(cid) expected')
                    return self.let(env, name, typ, '(d_name %s)' % self.cid(v.args[0], env), k)
                if typ == 'whdu':
                    kw = dict((x.arg, x.value) for x in v.keywords) if isinstance(v, ast.Call) else {}
                    if not (isinstance(v, ast.Call) and ast.unparse(v.func) == 'fits.ImageHDU' and len(v.args) == 1 and sorted(kw) == ['header', 'name']):
                        fail(s, 'hdu = fits.ImageHDU(values, name=cid.label, header=header) expected')
                    return self.let(env, name, typ, '(%s, %s, %s)' % (self.cid_label(kw['name'], env), self.arr(v.args[0], env), self.hdr(kw['header'], env)), k)
        fail(s, 'statement')

    def loop(self, s, after, env, tail):
        if s.orelse or not is_name(s.target, 'cid'):
            fail(s, 'for cid in ...: expected')
        if env.get('data') != 'dset':
            fail(s, 'data is not known to be a dataset at the loop')
        it = self.cols(s.iter)
        params = [(n, t) for n, t in env.items() if n not in ('data', 'components')]
        key = id(s)
        lname = self.name + '_loop'
        if key in self.loops:
            if self.loops[key] != params:
                raise Unsupported('line %d: the loop is reached with different sets of bound variables' % s.lineno)
        else:
            if self.loops:
                fail(s, 'second loop')
            self.loops[key] = params
            args = ' '.join(n for n, _ in params)

            def again(en):
                for n, t in params:
                    if en.get(n) != t:
                        raise Unsupported('line %d: variable %s is not bound at the end of the loop body' % (s.lineno, n))
                return '%s enc data components %s iter' % (lname, ' '.join(n for n, _ in params))

            def no_result(en):
                raise Unsupported('line %d: the function ends without writing / returning its container' % s.lineno)

            benv = dict(env, cid='cid')
            body = self.block(s.body, benv, again, again)
            aft = self.block(after, dict(env), no_result, None)
            sig = ' '.join('(%s : %s)' % (n, COQ_TYPE[t]) for n, t in params)
            self.defs.append('Fixpoint %s (enc : Z -> Z) (data : dset) (components : option (list Z)) %s (iter0 : list dcol) {struct iter0} : option (list %s) :=\n'
                             'match iter0 with\n| [] =>\n%s\n| cid :: iter =>\n%s\nend.\n' % (lname, sig, self.elt, aft, body))
        return '%s enc data components %s %s' % (lname, ' '.join(n for n, _ in params), it)

    def cols(self, e):
        if isinstance(e, ast.BinOp) and isinstance(e.op, ast.Add):
            return '(%s ++ %s)' % (self.cols(e.left), self.cols(e.right))
        t = ast.unparse(e)
        if t == 'data.main_components':
            return '(main_components data)'
        if t == 'data.derived_components':
            return '(derived_components data)'
        fail(e, 'iterated list')

    def translate(self):
        a = self.fn.args
        for dec in self.fn.decorator_list:
            if not (isinstance(dec, ast.Call) and ast.unparse(dec.func) == 'data_exporter'):
                fail(dec, 'decorator other than the @data_exporter(...) registration')
        names = [x.arg for x in a.args]
        if a.vararg or a.kwarg or a.kwonlyargs or a.posonlyargs or names not in (['data', 'components'], ['filename', 'data', 'components']):
            fail(self.fn, 'signature (filename, data, components=None) expected')
        if len(a.defaults) != 1 or not is_none_const(a.defaults[0]):
            fail(self.fn, 'components=None default expected')
        env = {'data': 'obj', 'components': 'ocomps'}
        pre = ''
        used = set(n.id for n in ast.walk(self.fn) if isinstance(n, ast.Name))
        for v, t in VAR_TYPES.items():
            if t == 'pyopt' and v in used:
                env[v] = 'pyopt'
                pre += 'let %s := PUnbound in\n' % v

        def no_result(en):
            raise Unsupported('%s: the function ends without writing / returning its container' % self.name)

        body = self.block(self.fn.body, env, no_result, None)
        if len(self.loops) != 1:
            raise Unsupported('%s: exactly one loop over the components expected' % self.name)
        d = ('Definition %s (enc : Z -> Z) (sub : option (list bool)) (data : dset) (components : option (list Z)) : option (list %s) :=\n%s%s.\n'
             % (self.name, self.elt, pre, body))
        return '(* %s: %s, lines %d-%d *)\n' % (self.name, self.path, self.fn.lineno, self.fn.end_lineno) + ''.join(self.defs) + d


HEADER = '''(* GENERATED by tools/gen/gen_exporters.py from glue/core/data_exporters/{astropy_table,hdf5,gridded_fits}.py on every run -- do not edit.
   The three exporter functions translated statement by statement over the objects of C19/ExportSem.v. *)
From Coq Require Import ZArith List Bool.
Import ListNotations.
From GV Require Import C19.ExportSem.
Open Scope Z_scope.
Open Scope bool_scope.

'''


def generate():
    out = HEADER
    for path, name, elt in FUNCS:
        mod = ast.parse(open(os.path.join(REPO, path)).read())
        fns = [n for n in ast.walk(mod) if isinstance(n, ast.FunctionDef) and n.name == name]
        if len(fns) != 1:
            raise Unsupported('%s: function %s not found exactly once' % (path, name))
        try:
            out += Fn(fns[0], elt, path).translate() + '\n'
        except Unsupported as e:
            raise Unsupported('%s: %s' % (path, e))
    if not os.path.exists(OUT) or open(OUT).read() != out:
        open(OUT, 'w').write(out)


if __name__ == '__main__':
    try:
        generate()
    except Unsupported as e:
        print('TRANSLATION-FAILED: %s' % e)
        sys.exit(3)
    print('ok', OUT)
