#!/usr/bin/env python3
r"""
Regenerate coq/gen/Gen_links.v from $GLUE_REPO/glue/core/link_manager.py: a statement-by-statement, expression-by-
expression translation (Python `ast` -> Gallina) of

    accessible_links, discover_links, find_dependents                                   (module functions)
    LinkManager._component_removed, ._data_removed, .remove_link, .update_externally_derivable_components   (methods)
    LinkManager.add_link (one entry that is neither a list nor a JoinLink)                                   (method)
    LinkManager._links, ._inverse_links, .links (properties: pure functions lm_links, lm_inverse_links, lm_links_list of
    self.data_collection : option (list D) and self._external_links : list E) and the expression
    `self._links | self._inverse_links` of update_externally_derivable_components (lm_links_in_force; inside lm_update_loop
    the same expression stays the Section variable links_in_force)

Fail-closed: every statement / expression form that is accepted is listed here; anything else aborts with the line number
(exit status 3, the check then reports "translation broken").  Nothing in this file recognises "the current source": the
Gallina text is assembled from the syntax tree, so swapping two statements, changing an operator, a constant, a callee, an
argument, a guard or a `break`/`continue` changes the generated definitions (and then the proofs in coq/C03/GenEquiv*.v or the
correspondence stream of tools/harness/c03.py fail).

Values.  The translated functions are polymorphic in the types of the Python objects they only pass around:
    C  ComponentID (equality `ceqb`: Python `==`/`is`/hash on ComponentID is identity)        L  ComponentLink (`leqb`)
    K  Component objects (`keqb`)                      E  entries of LinkManager._external_links (`eeqb`)     D  datasets (`deqb`)
and in the methods/attributes the code calls on them (Section variables, one per method, see OBJ_METHODS / ATTRS below).
    set            duplicate-free list in insertion order (`set_add`, `set_of_list`, `set_mem`, `set_le`); *iterating* a set
                   goes through the Section variable `set_iter : list C -> list C` (the theorems hold for every `set_iter`
                   that keeps the elements, i.e. for every iteration order)
    dict           insertion-ordered association list (`dict_get` -> KeyError, `dict_set` replaces in place or appends)
    list           list;  int -> Z;  bool -> bool
    exceptions     result type `Ok v | Err code` (Common.PyInt) - KeyError (d[k]), ValueError (max([]), list.remove)
    while True     recursion on an explicit `fuel : nat` (`while_true`), fuel exhaustion = `Err OutOfFuel`
    for/else, break, continue, return inside loops: the combinator `for_else` over the type
                   `outcome S R = Normal s | Break s | Continue s | Return r | Raise e`; the loop state `s` is the tuple of the
                   variables that exist before the loop and are assigned / mutated inside it.

Accepted statements
    "docstring"                                     skipped
    logging.getLogger(..).debug(..)                 skipped (no effect on the model)
    x = <expr>          a, b = <expr>, <expr>       let
    d[k] = <expr>                                   d := dict_set d k v
    s.add(x)   l.append(x)   l.remove(x)            s := set_add s x ;  l := l ++ [x] ;  l := list_remove l x  (ValueError)
    if <cond>: .. [elif ..] [else: ..]              `if`; the statements after the `if` are translated once per branch
    for <name | (a, b)> in <expr>: .. [else: ..]    for_else           while True: ..          while_true fuel
    break   continue   return [<expr>]
    self.<translated method>(args [, update_external=..])      state-passing call (the state is self._external_links + the trace)
    self.update_externally_derivable_components()   one `EvUpdate` appended to the trace (inside the other methods)
    data._set_externally_derivable_components(x)    one `EvSet data x` appended to the trace
    `if isinstance(link, list)` / `if isinstance(link, JoinLink)`: the parameter is declared a single plain link, the test is the
                   constant `false` and only the other branch is translated (stated in the generated file); any other use of
                   isinstance aborts.
Accepted expressions
    names, int / bool constants, None (only as `return None`)
    set(e)  set()  {}  []  [e, ..]  a + b (lists: ++, ints: +)  a - b  len(e)  max(e)  list(e)
    [e for x in it [if c]]     any(e for x in it)      (iteration over a set goes through set_iter)
    a <= b (sets: set_le; ints)  < > >= == !=  `x in s`  `x not in s`  `x is y`  `x is not y`  and  or  not
    d[k]  d.items()  x.<method>() and x.<attr> for the methods / attributes of the tables below, f(args) for translated f
    DerivedComponent(data, link) -> the pair (data, link)
Additional forms (properties and add_link)
    sets of links: duplicate-free lists w.r.t. leqb; iterating one / list(<set of links>) goes through `set_iter_L`;
                   a | b -> set_union leqb a b (prelude);  set(<list or set of links>)
    set(e for x in A [if c] for y in B [if c] ..)  nested flat_map / filter / map (genexp_list), parts that can raise abort;
                   element of option type only as `f for x in it .. if f is not None` -> flat_map over
                   `match f with Some v_ => [v_] | None => [] end`
    x is None / x is not None on an option value    match x with Some _ => .. | None => .. end
    `if self.data_collection is [not] None:` (properties)   match on the option; self.data_collection is the list of datasets
                   in the not-None branch (flow typing)
    getattr(data, 'links', [])                      data_links_attr data (table GETATTR_EMPTY, default must be the literal [])
    link.inverse  (link a ComponentLink)            inverse link : option L
    isinstance(x, LinkCollection), x an entry       is_collection x; as the whole test of an `if` statement the entry is typed
                   as a collection in the first branch (`for s in x` iterates coll_links x) and as a plain link in the second
                   (x put into a set / list of links is entry_link x)
    entry.inverse (add_link)                        entry_inverse entry : result (option E), evaluated where Python evaluates it;
                   `v not in self._external_links` for such a v: None is not a member
    for x in it: body   inside a property           fold_left (no else / break / continue / return / raising expression,
                   otherwise abort); the other functions keep for_else
"""
import ast
import os
import sys

REPO = os.environ.get('GLUE_REPO', '/repo')
SRC = os.path.join(REPO, 'glue/core/link_manager.py')
HERE = os.path.dirname(os.path.abspath(__file__))
OUT = os.environ.get('GEN_LINKS_OUT') or os.path.join(os.path.dirname(os.path.dirname(HERE)), 'coq/gen/Gen_links.v')


class Unsupported(Exception):
    pass


def fail(node, why):
    try:
        txt = ast.unparse(node)[:140]
    except Exception:
        txt = repr(node)
    raise Unsupported('line %s: %s: %s' % (getattr(node, 'lineno', '?'), why, txt))


# ------------------------------------------------------------------------------------------------ types
# Python-side types -> Gallina types
COQ_TY = {
    'Z': 'Z', 'bool': 'bool', 'C': 'C', 'L': 'L', 'K': 'K', 'E': 'E', 'D': 'D', 'M': 'M',
    'setC': 'list C', 'listC': 'list C', 'setK': 'list K', 'listL': 'list L', 'listZ': 'list Z', 'listE': 'list E', 'listD': 'list D',
    'dictZ': 'list (C * Z)', 'dictL': 'list (C * L)', 'dictDL': 'list (C * (D * L))', 'DL': '(D * L)',
    'itemsL': 'list (C * L)', 'unit': 'unit',
    'setL': 'list L', 'EC': 'E', 'EL': 'E', 'optL': 'option L', 'optE': 'option E', 'optlistD': 'option (list D)',
}
ELEM = {'setC': 'C', 'listC': 'C', 'setK': 'K', 'listL': 'L', 'listZ': 'Z', 'listE': 'E', 'listD': 'D', 'setL': 'L'}
EQB = {'C': 'ceqb', 'L': 'leqb', 'K': 'keqb', 'E': 'eeqb', 'D': 'deqb', 'Z': 'Z.eqb'}
SET_OF = {'C': 'setC', 'K': 'setK', 'L': 'setL'}
LIST_OF = {'C': 'listC', 'L': 'listL', 'Z': 'listZ', 'E': 'listE', 'D': 'listD'}
DICT_OF = {'Z': 'dictZ', 'L': 'dictL', 'DL': 'dictDL'}

# methods called on objects: (receiver type, method) -> (Section variable, argument types, result type)
OBJ_METHODS = {
    ('L', 'get_from_ids'): ('get_from_ids', [], 'listC'),
    ('L', 'get_to_id'): ('get_to_id', [], 'C'),
    ('D', 'get_component'): ('get_component', ['C'], 'K'),
}
# attributes read from objects: (receiver type, attribute) -> (Section variable, result type)
ATTRS = {
    ('D', 'main_components'): ('main_components', 'listC'),
    ('D', 'coordinate_components'): ('coordinate_components', 'listC'),
    ('D', 'derived_components'): ('derived_components', 'listC'),
    ('D', 'components'): ('components', 'listC'),
    ('K', 'link'): ('comp_link', 'L'),
    ('C', 'parent'): ('parent', 'D'),
    ('M', 'component_id'): ('msg_component_id', 'C'),
    ('M', 'data'): ('msg_data', 'D'),
    ('L', 'inverse'): ('inverse', 'optL'),
}
# `getattr(x, '<attr>', [])`: (receiver type, attribute) -> (Section variable, result type); the variable is the attribute
# when the object has it and [] otherwise (the default must be the literal [])
GETATTR_EMPTY = {
    ('D', 'links'): ('data_links_attr', 'listL'),
}
# attributes whose evaluation can raise: the Section variable returns a `result` (entry.inverse on a LinkCollection raises
# AttributeError; the error code is whatever the variable returns - Common.PyInt has no AttributeError constant and none is
# needed)
FALLIBLE_ATTRS = {
    ('E', 'inverse'): ('entry_inverse', 'optE'), ('EC', 'inverse'): ('entry_inverse', 'optE'),
    ('EL', 'inverse'): ('entry_inverse', 'optE'),
}
# isinstance tests that are translated (class name -> receiver types, Section variable)
ISINSTANCE_VARS = {'LinkCollection': (('E', 'EC', 'EL'), 'is_collection')}
# expressions on `self` that are not translated but named: source text -> (Section variable, type)
SELF_EXPRS = {
    'self._links | self._inverse_links': ('links_in_force', 'listL'),
}
SECTION_VARS = [
    ('C L K E D M', 'Type'),
    ('ceqb', 'C -> C -> bool'), ('leqb', 'L -> L -> bool'), ('keqb', 'K -> K -> bool'), ('eeqb', 'E -> E -> bool'),
    ('deqb', 'D -> D -> bool'),
    ('get_from_ids', 'L -> list C'), ('get_to_id', 'L -> C'),
    ('main_components coordinate_components derived_components components', 'D -> list C'),
    ('get_component', 'D -> C -> K'), ('comp_link', 'K -> L'), ('parent', 'C -> D'),
    ('entry_contains', 'E -> C -> bool'),
    ('msg_component_id', 'M -> C'), ('msg_data', 'M -> D'),
    ('links_in_force', 'list L'),
    ('set_iter', 'list C -> list C'), ('set_iter_K', 'list K -> list K'),
    ('data_links_attr', 'D -> list L'), ('is_collection', 'E -> bool'), ('coll_links', 'E -> list L'), ('entry_link', 'E -> L'),
    ('inverse', 'L -> option L'), ('entry_inverse', 'E -> result (option E)'), ('set_iter_L', 'list L -> list L'),
]
CMP_Z = {ast.Lt: '<?', ast.LtE: '<=?', ast.Gt: '>?', ast.GtE: '>=?', ast.Eq: '=?'}


class Hole:
    """type of an empty container literal, resolved at its first use"""
    def __init__(self, kind, node):
        self.kind, self.node, self.ty = kind, node, None     # kind: 'dict' | 'list' | 'set'

    def __repr__(self):
        return 'empty %s (element type unknown)' % self.kind

    def resolve(self, elem, node):
        table = {'dict': DICT_OF, 'list': LIST_OF, 'set': SET_OF}[self.kind]
        if elem not in table:
            fail(node, 'container of %s not supported' % elem)
        t = table[elem]
        if self.ty is not None and self.ty != t:
            fail(node, 'container used at two types (%s, %s)' % (self.ty, t))
        self.ty = t


def ty_of(t):
    if isinstance(t, Hole):
        return t.ty if t.ty is not None else t
    return t


def coq_ty(t, node=None):
    t = ty_of(t)
    if isinstance(t, Hole):
        fail(t.node, 'cannot infer the element type of this empty container')
    return COQ_TY[t]


# ------------------------------------------------------------------------------------------------ translated functions
class FnInfo:
    def __init__(self, name, coq_name, params, ret, pure, fuel, method):
        self.name, self.coq_name, self.params, self.ret, self.pure, self.fuel, self.method = \
            name, coq_name, params, ret, pure, fuel, method


FUNCS = {}           # python name -> FnInfo (module functions) ; methods under 'self.<name>'


def has_while(fn):
    return any(isinstance(n, ast.While) for n in ast.walk(fn))


# ------------------------------------------------------------------------------------------------ contexts
class Ctx:
    """where a block ends: kind 'fun' (function body) or 'loop' (loop body / else clause) with the loop's state tuple"""
    def __init__(self, kind, state=(), fn=None, rettype=None):
        self.kind, self.state, self.fn = kind, tuple(state), fn

    def tup(self):
        return tuple_of(self.state)


def tuple_of(names):
    names = list(names)
    if not names:
        return 'tt'
    if len(names) == 1:
        return names[0]
    return '(' + ', '.join(names) + ')'


def pat_of(names):
    names = list(names)
    if not names:
        return '_'
    if len(names) == 1:
        return names[0]
    return "'(" + ', '.join(names) + ')'


class Tr:
    """translation of one function"""

    def __init__(self, fn, method=False):
        self.fn = fn
        self.method = method is True      # state-passing method (self._external_links, trace)
        self.prop = method == 'prop'      # property: a pure function of (self.data_collection, self._external_links)
        self.isinstance_vars = {}         # translated isinstance tests (subset of ISINSTANCE_VARS)
        self.ret = None            # inferred return type
        self.holes = []
        self.tmp = 0
        self.uses_fuel = has_while(fn)
        self.const_false = set()   # source text of isinstance tests declared constant

    # ---------------------------------------------------------------- helpers
    def fresh(self, base='t'):
        self.tmp += 1
        return '%s%d_' % (base, self.tmp)

    def set_ret(self, t, node):
        t = ty_of(t)
        if self.ret is None:
            self.ret = t
        elif ty_of(self.ret) != t:
            fail(node, 'two return types (%s, %s)' % (self.ret, t))

    def raise_(self, ctx, code):
        return ('Raise %s' if ctx.kind == 'loop' else 'Err %s') % code

    def wrap_state(self, term):
        """methods return (self state, value)"""
        return term

    # ---------------------------------------------------------------- expressions
    # expr() returns (pre, term, type): pre = list of (var, fallible term of type result _) to bind, in evaluation order
    def expr(self, e, env):
        if isinstance(e, ast.Name):
            if e.id not in env:
                fail(e, 'name is not defined on every path to this point')
            return [], e.id, env[e.id]
        if isinstance(e, ast.Constant):
            if isinstance(e.value, bool):
                return [], 'true' if e.value else 'false', 'bool'
            if isinstance(e.value, int):
                return [], ('%d' % e.value) if e.value >= 0 else '(%d)' % e.value, 'Z'
            fail(e, 'constant')
        if isinstance(e, ast.Dict):
            if e.keys:
                fail(e, 'non-empty dict literal')
            h = Hole('dict', e)
            self.holes.append(h)
            return [], '[]', h
        if isinstance(e, ast.List):
            if not e.elts:
                h = Hole('list', e)
                self.holes.append(h)
                return [], '[]', h
            pre, terms, tys = [], [], []
            for x in e.elts:
                p, t, ty = self.expr(x, env)
                pre += p
                terms.append(t)
                tys.append(ty_of(ty))
            if len(set(tys)) != 1 or tys[0] not in LIST_OF:
                fail(e, 'list literal element types')
            return pre, '[' + '; '.join(terms) + ']', LIST_OF[tys[0]]
        if self.method and isinstance(e, (ast.Attribute, ast.BinOp)):
            txt = ast.unparse(e)
            if txt == 'self._external_links':
                return [], 'self_external_links', env['self_external_links']
            if txt in SELF_EXPRS:
                return [], SELF_EXPRS[txt][0], SELF_EXPRS[txt][1]
        if self.prop and isinstance(e, ast.Attribute) and isinstance(e.value, ast.Name) and e.value.id == 'self':
            if e.attr == '_external_links':
                return [], 'self_external_links', env['self_external_links']
            if e.attr == 'data_collection':
                return [], env['@dc'][0], env['@dc'][1]
            if 'prop.' + e.attr in FUNCS:
                info = FUNCS['prop.' + e.attr]
                return [], '(%s self_data_collection self_external_links)' % info.coq_name, info.ret
            fail(e, 'attribute of self that is not a translated property')
        if isinstance(e, ast.Attribute):
            p, t, ty = self.expr(e.value, env)
            key = (ty_of(ty), e.attr)
            if key in FALLIBLE_ATTRS:
                var, rty = FALLIBLE_ATTRS[key]
                v = self.fresh('v')
                return p + [(v, '(%s %s)' % (var, t))], v, rty
            if key not in ATTRS:
                fail(e, 'attribute %s of a value of type %s' % (e.attr, ty_of(ty)))
            var, rty = ATTRS[key]
            return p, '(%s %s)' % (var, t), rty
        if isinstance(e, ast.Subscript):
            p1, d, dty = self.expr(e.value, env)
            p2, k, kty = self.expr(e.slice, env)
            dty = ty_of(dty)
            if dty not in ('dictZ', 'dictL', 'dictDL') or ty_of(kty) != 'C':
                fail(e, 'subscript on a value of type %s' % (dty,))
            v = self.fresh('v')
            vty = {'dictZ': 'Z', 'dictL': 'L', 'dictDL': 'DL'}[dty]
            return p1 + p2 + [(v, '(dict_get ceqb %s %s)' % (d, k))], v, vty
        if isinstance(e, ast.BinOp):
            p1, a, ta = self.expr(e.left, env)
            p2, b, tb = self.expr(e.right, env)
            ta, tb = ty_of(ta), ty_of(tb)
            if isinstance(e.op, ast.Add):
                if ta == 'Z' and tb == 'Z':
                    return p1 + p2, '(%s + %s)' % (a, b), 'Z'
                if ta == tb and isinstance(ta, str) and ta.startswith('list'):
                    return p1 + p2, '(%s ++ %s)' % (a, b), ta
            if isinstance(e.op, ast.Sub) and ta == 'Z' and tb == 'Z':
                return p1 + p2, '(%s - %s)' % (a, b), 'Z'
            if isinstance(e.op, ast.Mult) and ta == 'Z' and tb == 'Z':
                return p1 + p2, '(%s * %s)' % (a, b), 'Z'
            if isinstance(e.op, ast.BitOr):
                # set union; a still-empty set() takes the element type of the other operand
                if isinstance(ta, Hole) and ta.kind == 'set' and tb == 'setL':
                    ta.resolve('L', e)
                    ta = ty_of(ta)
                if isinstance(tb, Hole) and tb.kind == 'set' and ta == 'setL':
                    tb.resolve('L', e)
                    tb = ty_of(tb)
                if ta == 'setL' and tb == 'setL':
                    return p1 + p2, '(set_union leqb %s %s)' % (a, b), 'setL'
            fail(e, 'binary operator on (%s, %s)' % (ta, tb))
        if isinstance(e, ast.UnaryOp) and isinstance(e.op, ast.Not):
            p, t, ty = self.expr(e.operand, env)
            if ty_of(ty) != 'bool':
                fail(e, 'not on a non-boolean')
            return p, '(negb %s)' % t, 'bool'
        if isinstance(e, ast.BoolOp):
            terms = []
            for x in e.values:
                p, t, ty = self.expr(x, env)
                if p:
                    fail(x, 'operand of and/or that can raise, outside an if-condition')
                if ty_of(ty) != 'bool':
                    fail(x, 'operand of and/or is not a boolean')
                terms.append(t)
            op = ' && ' if isinstance(e.op, ast.And) else ' || '
            return [], '(' + op.join(terms) + ')', 'bool'
        if isinstance(e, ast.Compare):
            if len(e.ops) != 1:
                fail(e, 'chained comparison')
            if isinstance(e.ops[0], (ast.Is, ast.IsNot)) and isinstance(e.comparators[0], ast.Constant) \
                    and e.comparators[0].value is None:
                p1, a, ta = self.expr(e.left, env)
                ta = ty_of(ta)
                if not (isinstance(ta, str) and ta.startswith('opt')):
                    fail(e, 'comparison with None of a value of type %s' % (ta,))
                if isinstance(e.ops[0], ast.Is):
                    return p1, '(match %s with Some _ => false | None => true end)' % a, 'bool'
                return p1, '(match %s with Some _ => true | None => false end)' % a, 'bool'
            p1, a, ta = self.expr(e.left, env)
            p2, b, tb = self.expr(e.comparators[0], env)
            ta, tb = ty_of(ta), ty_of(tb)
            op = e.ops[0]
            pre = p1 + p2
            if isinstance(op, (ast.In, ast.NotIn)) and ta == 'optE' and tb == 'listE':
                # membership of a value that may be None: None is not an entry of the list
                t = '(match %s with Some i_ => set_mem eeqb i_ %s | None => false end)' % (a, b)
                return pre, t if isinstance(op, ast.In) else '(negb %s)' % t, 'bool'
            if isinstance(op, (ast.In, ast.NotIn)) and ta in ('EC', 'EL') and tb == 'listE':
                ta = 'E'
            if isinstance(op, (ast.In, ast.NotIn)):
                if isinstance(tb, Hole) and tb.kind in ('set', 'list') and isinstance(ta, str):
                    tb.resolve(ta, e)        # a membership test fixes the element type of a still-empty container
                    tb = ty_of(tb)
                if tb in ELEM and ELEM[tb] == ta:
                    t = '(set_mem %s %s %s)' % (EQB[ta], a, b)
                elif tb in ('dictZ', 'dictL', 'dictDL') and ta == 'C':
                    t = '(dict_mem ceqb %s %s)' % (b, a)
                elif tb == 'E' and ta == 'C':
                    t = '(entry_contains %s %s)' % (b, a)
                else:
                    fail(e, '`in` on (%s, %s)' % (ta, tb))
                return pre, t if isinstance(op, ast.In) else '(negb %s)' % t, 'bool'
            if isinstance(op, (ast.Is, ast.IsNot, ast.Eq, ast.NotEq)) and ta == tb and ta in EQB and ta != 'Z':
                t = '(%s %s %s)' % (EQB[ta], a, b)
                return pre, t if isinstance(op, (ast.Is, ast.Eq)) else '(negb %s)' % t, 'bool'
            if ta == 'Z' and tb == 'Z':
                if type(op) in CMP_Z:
                    return pre, '(%s %s %s)' % (a, CMP_Z[type(op)], b), 'bool'
                if isinstance(op, ast.NotEq):
                    return pre, '(negb (%s =? %s))' % (a, b), 'bool'
            if ta == tb and ta in ('setC', 'setK'):
                eq = EQB[ELEM[ta]]
                if isinstance(op, ast.LtE):
                    return pre, '(set_le %s %s %s)' % (eq, a, b), 'bool'
                if isinstance(op, ast.GtE):
                    return pre, '(set_le %s %s %s)' % (eq, b, a), 'bool'
            fail(e, 'comparison on (%s, %s)' % (ta, tb))
        if isinstance(e, ast.ListComp):
            return self.comprehension(e, env)
        if isinstance(e, ast.Call):
            return self.call(e, env)
        fail(e, 'expression form')

    def iter_of(self, it, env):
        """what a `for` / comprehension iterates: (pre, term of type list X, X)"""
        if isinstance(it, ast.Call) and isinstance(it.func, ast.Attribute) and it.func.attr == 'items' and not it.args \
                and not it.keywords:
            p, t, ty = self.expr(it.func.value, env)
            if ty_of(ty) != 'dictL':
                fail(it, '.items() on %s' % (ty_of(ty),))
            return p, t, ('pair', 'C', 'L')
        p, t, ty = self.expr(it, env)
        ty = ty_of(ty)
        if ty == 'setC':
            return p, '(set_iter %s)' % t, 'C'
        if ty == 'setK':
            return p, '(set_iter_K %s)' % t, 'K'
        if ty == 'setL':
            return p, '(set_iter_L %s)' % t, 'L'
        if ty == 'EC':
            return p, '(coll_links %s)' % t, 'L'       # iterating an entry known to be a LinkCollection
        if ty in ELEM:
            return p, t, ELEM[ty]
        fail(it, 'iteration over a value of type %s' % (ty,))

    def comprehension(self, e, env):
        if len(e.generators) != 1:
            fail(e, 'comprehension with several generators')
        g = e.generators[0]
        if g.is_async or not isinstance(g.target, ast.Name):
            fail(e, 'comprehension target')
        pre, it, ety = self.iter_of(g.iter, env)
        if not isinstance(ety, str):
            fail(e, 'comprehension over items()')
        x = g.target.id
        env2 = dict(env)
        env2[x] = ety
        for c in g.ifs:
            p, t, ty = self.expr(c, env2)
            if p:
                fail(c, 'comprehension filter that can raise')
            if ty_of(ty) != 'bool':
                fail(c, 'comprehension filter is not a boolean')
            it = '(filter (fun %s => %s) %s)' % (x, t, it)
        p, t, ty = self.expr(e.elt, env2)
        ty = ty_of(ty)
        if isinstance(e, ast.GeneratorExp):
            return pre, (x, p, t, ty, it), None
        if ty not in LIST_OF:
            fail(e, 'list of %s' % (ty,))
        if not p:
            if isinstance(e.elt, ast.Name) and e.elt.id == x:
                return pre, it, LIST_OF[ty]
            return pre, '(map (fun %s => %s) %s)' % (x, t, it), LIST_OF[ty]
        body = 'Ok %s' % t
        for v, ft in reversed(p):
            body = 'match %s with Ok %s => %s | Err e_ => Err e_ end' % (ft, v, body)
        r = self.fresh('r')
        return pre + [(r, '(map_result (fun %s => %s) %s)' % (x, body, it))], r, LIST_OF[ty]

    def genexp_list(self, e, env):
        """generator expression with one or more `for` clauses whose parts cannot raise -> (term : list X, X).
        `for a in A for b in B(a)` is flat_map over A of the list for b.  An element expression of option type is accepted
        only in the form `f for x in it if .. if f is not None` (the last filter is `<the same expression> is not None`);
        it becomes flat_map (fun x => match f with Some v_ => [v_] | None => [] end), the elements for which f is not None,
        mapped to the value f has."""
        gens = e.generators

        def build(i, env):
            g = gens[i]
            if g.is_async or not isinstance(g.target, ast.Name):
                fail(e, 'comprehension target')
            pre, it, ety = self.iter_of(g.iter, env)
            if pre:
                fail(g.iter, 'iterable of a generator expression that can raise')
            if not isinstance(ety, str):
                fail(e, 'comprehension over items()')
            x = g.target.id
            if x in env:
                fail(e, 'comprehension target shadows a live name')
            self.check_rebind(x, ety, env, e)
            env2 = dict(env)
            env2[x] = ety
            last = i == len(gens) - 1
            ifs = list(g.ifs)
            guard = False
            if last:
                p, t, ty = self.expr(e.elt, env2)
                ty = ty_of(ty)
                if p or not isinstance(ty, str):
                    fail(e.elt, 'element of a generator expression that can raise / has no type')
                if ty.startswith('opt'):
                    c = ifs[-1] if ifs else None
                    if not (isinstance(c, ast.Compare) and len(c.ops) == 1 and isinstance(c.ops[0], ast.IsNot)
                            and isinstance(c.comparators[0], ast.Constant) and c.comparators[0].value is None
                            and ast.dump(c.left) == ast.dump(e.elt)):
                        fail(e, 'element that may be None without a final filter `<element> is not None`')
                    ifs = ifs[:-1]
                    guard = True
            for c in ifs:
                cp, ct, cty = self.expr(c, env2)
                if cp:
                    fail(c, 'comprehension filter that can raise')
                if ty_of(cty) != 'bool':
                    fail(c, 'comprehension filter is not a boolean')
                it = '(filter (fun %s => %s) %s)' % (x, ct, it)
            if not last:
                inner, ity = build(i + 1, env2)
                return '(flat_map (fun %s => %s) %s)' % (x, inner, it), ity
            if guard:
                return '(flat_map (fun %s => match %s with Some v_ => [v_] | None => [] end) %s)' % (x, t, it), \
                    {'optL': 'L', 'optE': 'E'}[ty]
            if isinstance(e.elt, ast.Name) and e.elt.id == x:
                return it, ty
            return '(map (fun %s => %s) %s)' % (x, t, it), ty
        return build(0, env)

    def call(self, e, env):
        f = e.func
        if e.keywords and not (isinstance(f, ast.Attribute) and isinstance(f.value, ast.Name) and f.value.id == 'self'):
            fail(e, 'keyword arguments')
        if isinstance(f, ast.Name):
            n = f.id
            if n == 'set' and len(e.args) <= 1:
                if not e.args:
                    h = Hole('set', e)
                    self.holes.append(h)
                    return [], '[]', h
                if isinstance(e.args[0], ast.GeneratorExp):
                    t, ety = self.genexp_list(e.args[0], env)
                    if ety not in SET_OF:
                        fail(e, 'set of %s' % (ety,))
                    return [], '(set_of_list %s %s)' % (EQB[ety], t), SET_OF[ety]
                p, t, ty = self.expr(e.args[0], env)
                ty = ty_of(ty)
                if ty in ('listC', 'setC'):
                    return p, '(set_of_list ceqb %s)' % t, 'setC'
                if ty in ('listL', 'setL'):
                    return p, '(set_of_list leqb %s)' % t, 'setL'
                fail(e, 'set() of %s' % (ty,))
            if n == 'list' and len(e.args) == 1:
                p, t, ty = self.expr(e.args[0], env)
                ty = ty_of(ty)
                if ty == 'setC':
                    return p, '(set_iter %s)' % t, 'listC'
                if ty == 'setL':
                    return p, '(set_iter_L %s)' % t, 'listL'
                if isinstance(ty, str) and ty.startswith('list'):
                    return p, t, ty
                fail(e, 'list() of %s' % (ty,))
            if n == 'getattr' and len(e.args) == 3:
                p, t, ty = self.expr(e.args[0], env)
                a1, a2 = e.args[1], e.args[2]
                if not (isinstance(a1, ast.Constant) and isinstance(a1.value, str)):
                    fail(e, 'getattr with a computed name')
                if not (isinstance(a2, ast.List) and not a2.elts):
                    fail(e, 'getattr default other than []')
                key = (ty_of(ty), a1.value)
                if key not in GETATTR_EMPTY:
                    fail(e, 'getattr %s of a value of type %s' % (a1.value, ty_of(ty)))
                return p, '(%s %s)' % (GETATTR_EMPTY[key][0], t), GETATTR_EMPTY[key][1]
            if n == 'len' and len(e.args) == 1:
                p, t, ty = self.expr(e.args[0], env)
                if ty_of(ty) not in ELEM:
                    fail(e, 'len() of %s' % (ty_of(ty),))
                return p, '(zlen %s)' % t, 'Z'
            if n == 'max' and len(e.args) == 1:
                p, t, ty = self.expr(e.args[0], env)
                if ty_of(ty) != 'listZ':
                    fail(e, 'max() of %s' % (ty_of(ty),))
                v = self.fresh('m')
                return p + [(v, '(py_max %s)' % t)], v, 'Z'
            if n == 'any' and len(e.args) == 1 and isinstance(e.args[0], ast.GeneratorExp):
                pre, (x, p, t, ty, it), _ = self.comprehension(e.args[0], env)
                if p or ty != 'bool':
                    fail(e, 'any() over elements that can raise / are not booleans')
                return pre, '(existsb (fun %s => %s) %s)' % (x, t, it), 'bool'
            if n == 'DerivedComponent' and len(e.args) == 2:
                p1, a, ta = self.expr(e.args[0], env)
                p2, b, tb = self.expr(e.args[1], env)
                if (ty_of(ta), ty_of(tb)) != ('D', 'L'):
                    fail(e, 'DerivedComponent(%s, %s)' % (ty_of(ta), ty_of(tb)))
                return p1 + p2, '(%s, %s)' % (a, b), 'DL'
            if n in FUNCS:
                info = FUNCS[n]
                if len(e.args) != len(info.params):
                    fail(e, 'number of arguments')
                pre, terms = [], []
                for a, (pn, pt) in zip(e.args, info.params):
                    p, t, ty = self.expr(a, env)
                    ty = ty_of(ty)
                    if ty != pt and not (pt == 'listC' and ty == 'setC') and not (pt == 'listL' and ty == 'listL'):
                        fail(a, 'argument of type %s for parameter %s : %s' % (ty, pn, pt))
                    if pt == 'listC' and ty == 'setC':
                        t = '(set_iter %s)' % t       # a set handed to a function that iterates it
                    pre += p
                    terms.append(t)
                if info.fuel:
                    self.uses_fuel = True
                head = info.coq_name + (' fuel' if info.fuel else '')
                term = '(%s %s)' % (head, ' '.join(terms))
                if info.pure:
                    return pre, term, info.ret
                v = self.fresh('c')
                return pre + [(v, term)], v, info.ret
            fail(e, 'call of an unknown function')
        if isinstance(f, ast.Attribute):
            if e.args and any(isinstance(a, ast.Starred) for a in e.args):
                fail(e, 'starred argument')
            p0, recv, rty = self.expr(f.value, env)
            key = (ty_of(rty), f.attr)
            if key in OBJ_METHODS:
                var, atys, res = OBJ_METHODS[key]
                if len(e.args) != len(atys):
                    fail(e, 'number of arguments')
                pre, terms = list(p0), []
                for a, at in zip(e.args, atys):
                    p, t, ty = self.expr(a, env)
                    if ty_of(ty) != at:
                        fail(a, 'argument type %s, expected %s' % (ty_of(ty), at))
                    pre += p
                    terms.append(t)
                return pre, '(%s %s)' % (var, ' '.join([recv] + terms)), res
            fail(e, 'method %s on a value of type %s' % (f.attr, ty_of(rty)))
        fail(e, 'call form')

    # ---------------------------------------------------------------- binding fallible sub-expressions
    def binds(self, pre, body, ctx):
        if pre and (self.prop or ctx.kind == 'fold'):
            fail(self.fn, 'expression that can raise inside a property (%s)' % pre[0][1])
        for v, ft in reversed(pre):
            body = 'match %s with\n| Err e_ => %s\n| Ok %s =>\n%s\nend' % (ft, self.raise_(ctx, 'e_'), v, body)
        return body

    def isinstance_term(self, c, env):
        """`isinstance(x, Cls)` for the classes of self.isinstance_vars -> boolean term, else None"""
        if len(c.args) == 2 and not c.keywords and all(isinstance(a, ast.Name) for a in c.args) \
                and c.args[1].id in self.isinstance_vars and c.args[0].id in env:
            tys, var = self.isinstance_vars[c.args[1].id]
            if ty_of(env[c.args[0].id]) in tys:
                return '(%s %s)' % (var, c.args[0].id)
        return None

    # ---------------------------------------------------------------- conditions
    def cond(self, c, env, ctx, then, orelse):
        """`if c` with code for both branches; and/or/not are short-circuit, so operands that can raise are evaluated
        only when Python evaluates them"""
        if isinstance(c, ast.BoolOp):
            try:
                p, t, ty = self.expr(c, env)
                pure = not p
            except Unsupported:
                pure = False
            if not pure:
                first, rest = c.values[0], c.values[1:]
                restc = rest[0] if len(rest) == 1 else ast.BoolOp(op=c.op, values=rest)
                if isinstance(c.op, ast.And):
                    return self.cond(first, env, ctx, self.cond(restc, env, ctx, then, orelse), orelse)
                return self.cond(first, env, ctx, then, self.cond(restc, env, ctx, then, orelse))
        if isinstance(c, ast.UnaryOp) and isinstance(c.op, ast.Not):
            return self.cond(c.operand, env, ctx, orelse, then)
        if isinstance(c, ast.Call) and isinstance(c.func, ast.Name) and c.func.id == 'isinstance':
            txt = ast.unparse(c)
            if txt in self.const_false:
                return orelse
            it = self.isinstance_term(c, env)
            if it is not None:
                return 'if %s then\n%s\nelse\n%s' % (it, indent(then), indent(orelse))
            fail(c, 'isinstance test')
        p, t, ty = self.expr(c, env)
        if ty_of(ty) != 'bool':
            fail(c, 'condition of type %s (truthiness of non-booleans is not translated)' % (ty_of(ty),))
        return self.binds(p, 'if %s then\n%s\nelse\n%s' % (t, indent(then), indent(orelse)), ctx)

    # ---------------------------------------------------------------- statements
    def assigned(self, stmts):
        """names assigned or mutated in the statements (not the loop targets)"""
        out = []

        def add(n):
            if n not in out:
                out.append(n)

        def visit(s):
            if isinstance(s, ast.Assign):
                for t in s.targets:
                    if isinstance(t, ast.Name):
                        add(t.id)
                    elif isinstance(t, ast.Tuple):
                        for x in t.elts:
                            if isinstance(x, ast.Name):
                                add(x.id)
                    elif isinstance(t, ast.Subscript) and isinstance(t.value, ast.Name):
                        add(t.value.id)
            elif isinstance(s, ast.AugAssign) and isinstance(s.target, ast.Name):
                add(s.target.id)
            elif isinstance(s, ast.Expr) and isinstance(s.value, ast.Call) and isinstance(s.value.func, ast.Attribute):
                f = s.value.func
                if isinstance(f.value, ast.Name) and f.value.id != 'self' and f.attr in ('add', 'append', 'remove'):
                    add(f.value.id)
                if isinstance(f.value, ast.Attribute) and ast.unparse(f.value) == 'self._external_links':
                    add('self_external_links')
                if isinstance(f.value, ast.Name) and f.value.id == 'self':
                    add('self_external_links')
                    add('trace')
                if f.attr == '_set_externally_derivable_components':
                    add('trace')
            for fld in ('body', 'orelse'):
                for x in getattr(s, fld, []) or []:
                    if isinstance(x, ast.stmt):
                        visit(x)
        for s in stmts:
            visit(s)
        return out

    def end(self, ctx, env):
        if ctx.kind == 'loop':
            for v in ctx.state:
                if v not in env:
                    fail(self.fn, 'internal: state variable %s lost' % v)
            return 'Normal %s' % ctx.tup()
        if ctx.kind == 'fold':
            for v in ctx.state:
                if v not in env:
                    fail(self.fn, 'internal: state variable %s lost' % v)
            return ctx.tup()
        if self.prop:
            fail(self.fn, 'property without a return value on some path')
        # falling off the end of a function: returns None
        self.set_ret('unit', self.fn)
        return self.ok('tt')

    def ok(self, term):
        if self.prop:
            return term
        if self.method:
            return 'Ok (self_external_links, trace, %s)' % term
        return 'Ok %s' % term

    def block(self, stmts, env, ctx):
        if not stmts:
            return self.end(ctx, env)
        s, rest = stmts[0], stmts[1:]
        env = dict(env)
        # ---- no-ops
        if isinstance(s, ast.Expr) and isinstance(s.value, ast.Constant) and isinstance(s.value.value, str):
            return self.block(rest, env, ctx)
        if isinstance(s, ast.Expr) and isinstance(s.value, ast.Call):
            txt = ast.unparse(s.value.func)
            if txt.startswith('logging.getLogger(') and txt.endswith('.debug'):
                return self.block(rest, env, ctx)
        if isinstance(s, ast.Pass):
            return self.block(rest, env, ctx)
        # ---- control
        if isinstance(s, ast.Break):
            if ctx.kind != 'loop':
                fail(s, 'break outside a loop')
            return 'Break %s' % ctx.tup()
        if isinstance(s, ast.Continue):
            if ctx.kind != 'loop':
                fail(s, 'continue outside a loop')
            return 'Continue %s' % ctx.tup()
        if isinstance(s, ast.Return):
            if s.value is None or (isinstance(s.value, ast.Constant) and s.value.value is None):
                self.set_ret('unit', s)
                p, t = [], 'tt'
            else:
                p, t, ty = self.expr(s.value, env)
                self.set_ret(ty, s)
            if ctx.kind == 'loop':
                if self.method:
                    return self.binds(p, 'Return (self_external_links, trace, %s)' % t, ctx)
                return self.binds(p, 'Return %s' % t, ctx)
            return self.binds(p, self.ok(t), ctx)
        # ---- assignments
        if isinstance(s, ast.Assign):
            if len(s.targets) != 1:
                fail(s, 'chained assignment')
            tg = s.targets[0]
            if isinstance(tg, ast.Name):
                p, t, ty = self.expr(s.value, env)
                self.check_rebind(tg.id, ty, env, s)
                env[tg.id] = ty
                return self.binds(p, 'let %s := %s in\n%s' % (tg.id, t, self.block(rest, env, ctx)), ctx)
            if isinstance(tg, ast.Tuple) and isinstance(s.value, ast.Tuple) and len(tg.elts) == len(s.value.elts) \
                    and all(isinstance(x, ast.Name) for x in tg.elts):
                names = [x.id for x in tg.elts]
                used = {n.id for v in s.value.elts for n in ast.walk(v) if isinstance(n, ast.Name)}
                if used & set(names) or len(set(names)) != len(names):
                    fail(s, 'tuple assignment whose right-hand side mentions a target')
                pre, lets = [], []
                for n, v in zip(names, s.value.elts):
                    p, t, ty = self.expr(v, env)
                    pre += p
                    lets.append((n, t, ty))
                for n, t, ty in lets:
                    self.check_rebind(n, ty, env, s)
                    env[n] = ty
                body = self.block(rest, env, ctx)
                for n, t, ty in reversed(lets):
                    body = 'let %s := %s in\n%s' % (n, t, body)
                return self.binds(pre, body, ctx)
            if isinstance(tg, ast.Subscript) and isinstance(tg.value, ast.Name):
                d = tg.value.id
                if d not in env:
                    fail(s, 'store into an undefined name')
                # Python evaluates the right-hand side first, then the container and the key
                p1, v, vty = self.expr(s.value, env)
                p2, k, kty = self.expr(tg.slice, env)
                if ty_of(kty) != 'C':
                    fail(s, 'dict key of type %s' % (ty_of(kty),))
                dty = env[d]
                if isinstance(dty, Hole) and dty.kind == 'dict':
                    dty.resolve(ty_of(vty), s)
                if ty_of(dty) not in DICT_OF.values() or {'dictZ': 'Z', 'dictL': 'L', 'dictDL': 'DL'}[ty_of(dty)] != ty_of(vty):
                    fail(s, 'store of a %s into a %s' % (ty_of(vty), ty_of(dty)))
                return self.binds(p1 + p2, 'let %s := dict_set ceqb %s %s %s in\n%s' % (d, d, k, v, self.block(rest, env, ctx)), ctx)
            fail(s, 'assignment target')
        # ---- calls used as statements
        if isinstance(s, ast.Expr) and isinstance(s.value, ast.Call) and isinstance(s.value.func, ast.Attribute):
            c, f = s.value, s.value.func
            if isinstance(f.value, ast.Name) and f.value.id == 'self':
                return self.self_call(s, c, rest, env, ctx)
            if f.attr == '_set_externally_derivable_components' and len(c.args) == 1 and not c.keywords and not self.prop:
                p1, dv, dty = self.expr(f.value, env)
                p2, a, aty = self.expr(c.args[0], env)
                if ty_of(dty) != 'D' or ty_of(aty) != 'dictDL':
                    fail(s, '_set_externally_derivable_components(%s) on %s' % (ty_of(aty), ty_of(dty)))
                return self.binds(p1 + p2, 'let trace := trace ++ [EvSet %s %s] in\n%s' % (dv, a, self.block(rest, env, ctx)), ctx)
            recv = None
            if isinstance(f.value, ast.Name):
                recv = f.value.id
            elif self.method and ast.unparse(f.value) == 'self._external_links':
                recv = 'self_external_links'
            if recv is not None and f.attr in ('add', 'append', 'remove') and len(c.args) == 1 and not c.keywords:
                if recv not in env:
                    fail(s, 'method call on an undefined name')
                p, a, aty = self.expr(c.args[0], env)
                aty = ty_of(aty)
                rty = env[recv]
                if aty in ('EC', 'EL') and ty_of(rty) == 'listE':
                    aty = 'E'                              # an entry stored back into the list of entries
                elif aty == 'EL':
                    a, aty = '(entry_link %s)' % a, 'L'    # an entry known not to be a LinkCollection, used as a link
                if isinstance(rty, Hole):
                    if (f.attr == 'add') != (rty.kind == 'set') or rty.kind == 'dict':
                        fail(s, '.%s on a %s' % (f.attr, rty.kind))
                    rty.resolve(aty, s)
                rty = ty_of(rty)
                if f.attr == 'add' and rty in ('setC', 'setK', 'setL') and ELEM[rty] == aty:
                    new = 'set_add %s %s %s' % (EQB[aty], recv, a)
                elif f.attr == 'append' and isinstance(rty, str) and rty.startswith('list') and ELEM[rty] == aty:
                    new = '%s ++ [%s]' % (recv, a)
                elif f.attr == 'remove' and isinstance(rty, str) and rty.startswith('list') and ELEM[rty] == aty:
                    r = self.fresh('l')
                    return self.binds(p + [(r, '(list_remove %s %s %s)' % (EQB[aty], recv, a))],
                                      'let %s := %s in\n%s' % (recv, r, self.block(rest, env, ctx)), ctx)
                else:
                    fail(s, '.%s(%s) on a %s' % (f.attr, aty, rty))
                return self.binds(p, 'let %s := %s in\n%s' % (recv, new, self.block(rest, env, ctx)), ctx)
            fail(s, 'call statement')
        # ---- if
        if isinstance(s, ast.If):
            if isinstance(s.test, ast.Call) and ast.unparse(s.test) in self.const_false:
                return self.block(list(s.orelse) + rest, env, ctx)      # declared-constant isinstance test
            t = s.test
            if isinstance(t, ast.Call) and isinstance(t.func, ast.Name) and t.func.id == 'isinstance':
                it = self.isinstance_term(t, env)
                if it is not None and ty_of(env[t.args[0].id]) == 'E':
                    # flow typing: the entry is a LinkCollection in the first branch, a plain link in the second
                    x = t.args[0].id
                    envt, envf = dict(env), dict(env)
                    envt[x], envf[x] = 'EC', 'EL'
                    then = self.block(list(s.body) + rest, envt, ctx)
                    orelse = self.block(list(s.orelse) + rest, envf, ctx)
                    return 'if %s then\n%s\nelse\n%s' % (it, indent(then), indent(orelse))
            if self.prop and isinstance(t, ast.Compare) and len(t.ops) == 1 and isinstance(t.ops[0], (ast.Is, ast.IsNot)) \
                    and isinstance(t.comparators[0], ast.Constant) and t.comparators[0].value is None \
                    and ast.unparse(t.left) == 'self.data_collection' and env['@dc'][1] == 'optlistD':
                # flow typing: self.data_collection is a list of datasets where it is not None
                envs = dict(env)
                envs['@dc'] = ('dc_', 'listD')
                none_body, some_body = (s.body, s.orelse) if isinstance(t.ops[0], ast.Is) else (s.orelse, s.body)
                nb = self.block(list(none_body) + rest, env, ctx)
                sb = self.block(list(some_body) + rest, envs, ctx)
                return 'match %s with\n| None =>\n%s\n| Some dc_ =>\n%s\nend' % (env['@dc'][0], indent(nb), indent(sb))
            then = self.block(list(s.body) + rest, env, ctx)
            orelse = self.block(list(s.orelse) + rest, env, ctx)
            return self.cond(s.test, env, ctx, then, orelse)
        # ---- loops
        if isinstance(s, (ast.For, ast.While)):
            return self.loop(s, rest, env, ctx)
        fail(s, 'statement form')

    def check_rebind(self, name, ty, env, node):
        import re
        if name in ('fuel', 'trace', 'self_external_links', 'self_data_collection', 'dc_', 'v_', 'i_', 'r_', 'e_') or re.match(r'^[tvmrcle]\d+_$', name):
            fail(node, 'local name %s clashes with generated names' % name)
        if name in [v for names, _ in SECTION_VARS for v in names.split()] and name not in ('C', 'L', 'K', 'E', 'D', 'M'):
            fail(node, 'local name %s clashes with a Section variable' % name)

    def self_call(self, s, c, rest, env, ctx):
        """self.<method>(args): methods are state transformers on (self._external_links, trace)"""
        if not self.method:
            fail(s, 'self outside a method')
        name = c.func.attr
        if name == 'update_externally_derivable_components' and not c.args and not c.keywords:
            return 'let trace := trace ++ [EvUpdate] in\n%s' % self.block(rest, env, ctx)
        key = 'self.' + name
        if key not in FUNCS:
            fail(s, 'call of an untranslated method')
        info = FUNCS[key]
        params = list(info.params)
        given = {}
        if len(c.args) > len(params):
            fail(s, 'too many arguments')
        pre = []
        for a, (pn, pt) in zip(c.args, params):
            given[pn] = a
        for kw in c.keywords:
            if kw.arg in given or kw.arg not in [p[0] for p in params]:
                fail(s, 'keyword argument %s' % kw.arg)
            given[kw.arg] = kw.value
        terms = []
        for pn, pt in params:
            if pn in given:
                p, t, ty = self.expr(given[pn], env)
                if ty_of(ty) != pt:
                    fail(s, 'argument %s of type %s, expected %s' % (pn, ty_of(ty), pt))
                pre += p
                terms.append(t)
            elif pn in info.defaults:
                terms.append(info.defaults[pn])
            else:
                fail(s, 'missing argument %s' % pn)
        if info.fuel:
            self.uses_fuel = True
        head = info.coq_name + (' fuel' if info.fuel else '')
        call = '(%s self_external_links trace %s)' % (head, ' '.join(terms))
        body = 'match %s with\n| Err e_ => %s\n| Ok (self_external_links, trace, _) =>\n%s\nend' % (
            call, self.raise_(ctx, 'e_'), self.block(rest, env, ctx))
        return self.binds(pre, body, ctx)

    def fold_loop(self, s, rest, env, ctx):
        """(properties) `for x in it: body` without else / break / continue / return / anything that can raise:
        fold_left over the iterated list, the accumulator is the tuple of the variables the body assigns or mutates"""
        if not isinstance(s, ast.For) or s.orelse:
            fail(s, 'only `for` loops without else are translated inside a property')
        for b in s.body:
            for n in ast.walk(b):
                if isinstance(n, (ast.Break, ast.Continue, ast.Return, ast.Raise, ast.While, ast.Try, ast.With,
                                  ast.FunctionDef, ast.Lambda, ast.Yield, ast.YieldFrom, ast.Await)):
                    fail(n, 'statement form inside a loop of a property')
        st = [v for v in self.assigned(list(s.body)) if v in env]
        st = [v for v in env if v in st]
        pre, it, ety = self.iter_of(s.iter, env)
        if pre or not isinstance(ety, str):
            fail(s, 'iterable of a loop of a property')
        if not isinstance(s.target, ast.Name):
            fail(s, 'loop target')
        a = s.target.id
        if a in env:
            fail(s, 'loop target shadows a live name')
        self.check_rebind(a, ety, env, s)
        benv = dict(env)
        benv[a] = ety
        body = self.block(list(s.body), benv, Ctx('fold', st))
        after = self.block(rest, env, ctx)
        return 'let %s := fold_left (fun %s %s =>\n%s)\n  %s %s in\n%s' % (
            pat_of(st), pat_of(st), a, indent(body), it, tuple_of(st), after)

    def loop(self, s, rest, env, ctx):
        if self.prop:
            return self.fold_loop(s, rest, env, ctx)
        inner = list(s.body) + list(s.orelse)
        st = [v for v in self.assigned(inner) if v in env]
        # the order of the state tuple is the order in which the variables were defined
        st = [v for v in env if v in st]
        lctx = Ctx('loop', st)
        if isinstance(s, ast.While):
            if not (isinstance(s.test, ast.Constant) and s.test.value is True) or s.orelse:
                fail(s, 'only `while True:` without else is translated')
            body = self.block(list(s.body), env, lctx)
            term = 'while_true fuel (fun %s =>\n%s)\n%s' % (pat_of(st), indent(body), tuple_of(st))
        else:
            pre, it, ety = self.iter_of(s.iter, env)
            benv = dict(env)
            if isinstance(ety, tuple):
                if not (isinstance(s.target, ast.Tuple) and len(s.target.elts) == 2 and all(isinstance(x, ast.Name) for x in s.target.elts)):
                    fail(s, 'target of a loop over items()')
                a, b = [x.id for x in s.target.elts]
                if a in env or b in env:
                    fail(s, 'loop target shadows a live name')
                benv[a], benv[b] = ety[1], ety[2]
                tpat = "'(%s, %s)" % (a, b)
            else:
                if not isinstance(s.target, ast.Name):
                    fail(s, 'loop target')
                a = s.target.id
                if a in env:
                    fail(s, 'loop target shadows a live name')
                benv[a] = ety
                tpat = a
            body = self.block(list(s.body), benv, lctx)
            orelse = self.block(list(s.orelse), env, lctx)
            term = 'for_else (fun %s %s =>\n%s)\n(fun %s =>\n%s)\n%s %s' % (
                tpat, pat_of(st), indent(body), pat_of(st), indent(orelse), it, tuple_of(st))
            if pre:
                term = None, pre, term
        pre = []
        if isinstance(term, tuple):
            _, pre, term = term
        after = self.block(rest, env, ctx)
        if ctx.kind == 'loop':
            brk, cont = 'Break %s' % ctx.tup(), 'Continue %s' % ctx.tup()
            ret, rse = 'Return r_', 'Raise e_'
        else:
            brk = cont = 'Err (-1)'     # unreachable: Python has no break/continue outside a loop
            ret, rse = 'Ok r_', 'Err e_'
        out = ('match %s with\n| Normal %s =>\n%s\n| Break %s => %s\n| Continue %s => %s\n| Return r_ => %s\n| Raise e_ => %s\nend'
               % (indent(term), tuple_of(st), indent(after), tuple_of(st), brk, tuple_of(st), cont, ret, rse))
        return self.binds(pre, out, ctx)


def indent(txt, n=2):
    return '\n'.join(' ' * n + ln for ln in txt.split('\n'))


# ------------------------------------------------------------------------------------------------ functions
def param_types(fn, table):
    out = []
    for a in fn.args.args:
        if a.arg == 'self':
            continue
        if a.arg not in table:
            fail(fn, 'no type declared for parameter %s' % a.arg)
        out.append((a.arg, table[a.arg]))
    if fn.args.vararg or fn.args.kwarg or fn.args.kwonlyargs or fn.args.posonlyargs:
        fail(fn, 'signature form')
    return out


def translate_property(fn, coq_name, doc='', kind='property'):
    """a property of LinkManager: a pure function of self.data_collection (None / Some datasets) and self._external_links;
    anything that can raise, or a loop that is not a plain fold, aborts"""
    if [a.arg for a in fn.args.args] != ['self'] or fn.args.vararg or fn.args.kwarg or fn.args.kwonlyargs or fn.args.posonlyargs:
        fail(fn, 'signature of a property')
    tr = Tr(fn, 'prop')
    tr.isinstance_vars = dict(ISINSTANCE_VARS)
    env = {'self_external_links': 'listE', '@dc': ('self_data_collection', 'optlistD')}
    body = tr.block(list(fn.body), env, Ctx('fun'))
    for h in tr.holes:
        if h.ty is None:
            fail(h.node, 'cannot infer the element type of this empty container')
    if tr.ret is None or tr.uses_fuel or 'Err ' in body or 'Raise ' in body:
        fail(fn, 'property is not a pure function')
    ret = ty_of(tr.ret)
    text = 'Definition %s (self_data_collection : option (list D)) (self_external_links : list E) : %s :=\n%s.\n' % (
        coq_name, COQ_TY[ret], indent(body))
    info = FnInfo(fn.name, coq_name, [], ret, True, False, 'prop')
    info.defaults = {}
    FUNCS['prop.' + fn.name] = info
    where = '(* LinkManager.%s (%s)  glue/core/link_manager.py:%s-%s%s *)\n' % (
        fn.name, kind, getattr(fn, 'lineno', '?'), getattr(fn, 'end_lineno', '?'), doc)
    return where + text


def translate_function(fn, ptypes, method=False, const_false=(), defaults=None, doc='', isinstance_vars=None):
    tr = Tr(fn, method)
    tr.const_false = set(const_false)
    tr.isinstance_vars = dict(isinstance_vars or {})
    params = param_types(fn, ptypes)
    env = {}
    if method:
        env['self_external_links'] = 'listE'
        env['trace'] = 'trace'
    for n, t in params:
        env[n] = t
    COQ_TY['trace'] = 'list event'
    ctx = Ctx('fun')
    body = tr.block(list(fn.body), env, ctx)
    for h in tr.holes:
        if h.ty is None:
            fail(h.node, 'cannot infer the element type of this empty container')
    if tr.ret is None:
        fail(fn, 'no return type')
    # a function is pure when its translation never raises and has no loops: then it is emitted without the result monad
    pure = (not method and not tr.uses_fuel and 'Err ' not in body and 'match' not in body and body.count('Ok ') == 1)
    ret = ty_of(tr.ret)
    coq_name = ('lm_' + fn.name.lstrip('_')) if method else fn.name
    ps = ''.join(' (%s : %s)' % (n, COQ_TY[t]) for n, t in params)
    if method:
        ps = ' (self_external_links : list E) (trace : list event)' + ps
    if pure:
        i = body.rindex('Ok ')
        body = body[:i] + body[i + 3:]
        text = 'Definition %s%s : %s :=\n%s.\n' % (coq_name, ps, COQ_TY[ret], indent(body))
    else:
        rty = COQ_TY[ret]
        if method:
            rty = '(list E * list event * %s)' % rty
        text = 'Definition %s%s%s : result %s :=\n%s.\n' % (coq_name, ' (fuel : nat)' if tr.uses_fuel else '', ps,
                                                             rty if ' ' not in rty or rty.startswith('(') else '(%s)' % rty, indent(body))
    info = FnInfo(fn.name, coq_name, params, ret, pure, tr.uses_fuel, method)
    info.defaults = defaults or {}
    FUNCS[('self.' if method else '') + fn.name] = info
    where = '(* %s%s  glue/core/link_manager.py:%d-%d%s *)\n' % ('LinkManager.' if method else '', fn.name, fn.lineno, fn.end_lineno, doc)
    return where + text


PRELUDE = r'''(* GENERATED by tools/gen/gen_links.py from glue/core/link_manager.py on every run -- do not edit. *)
From Coq Require Import ZArith List Bool.
Import ListNotations.
From GV Require Import Common.PyInt.
Open Scope Z_scope.

(* ---------------------------------------------------------------- fixed prelude: Python control flow and containers *)
Definition KeyError : Z := 4.

Inductive outcome (S R : Type) : Type :=
| Normal (s : S) | Break (s : S) | Continue (s : S) | Return (r : R) | Raise (e : Z).
Arguments Normal {S R} s.
Arguments Break {S R} s.
Arguments Continue {S R} s.
Arguments Return {S R} r.
Arguments Raise {S R} e.

(* `for x in xs: body  else: orelse` as a statement of an enclosing block: the result is Normal when the loop is left by
   `break`; when the list is exhausted the else clause runs in the enclosing block (so its Break / Continue belong to the
   enclosing loop) *)
Fixpoint for_else {A S R : Type} (body : A -> S -> outcome S R) (orelse : S -> outcome S R) (xs : list A) (s : S)
  : outcome S R :=
  match xs with
  | [] => orelse s
  | x :: r =>
    match body x s with
    | Normal s' => for_else body orelse r s'
    | Continue s' => for_else body orelse r s'
    | Break s' => Normal s'
    | Return v => Return v
    | Raise e => Raise e
    end
  end.

(* `while True: body` on explicit fuel *)
Fixpoint while_true {S R : Type} (fuel : nat) (body : S -> outcome S R) (s : S) : outcome S R :=
  match fuel with
  | O => Raise OutOfFuel
  | Datatypes.S k =>
    match body s with
    | Normal s' => while_true k body s'
    | Continue s' => while_true k body s'
    | Break s' => Normal s'
    | Return v => Return v
    | Raise e => Raise e
    end
  end.

Section Containers.
  Context {X : Type} (eqb : X -> X -> bool).
  Definition set_mem (x : X) (s : list X) : bool := existsb (eqb x) s.
  Definition set_add (s : list X) (x : X) : list X := if set_mem x s then s else s ++ [x].
  Definition set_of_list (l : list X) : list X := fold_left set_add l [].
  Definition set_le (a b : list X) : bool := forallb (fun x => set_mem x b) a.
  (* list.remove(x): the first element equal to x, ValueError when there is none *)
  Fixpoint list_remove (l : list X) (x : X) : result (list X) :=
    match l with
    | [] => Err ValueError
    | y :: r => if eqb x y then Ok r
                else match list_remove r x with Ok r' => Ok (y :: r') | Err e => Err e end
    end.
  Context {V : Type}.
  Fixpoint dict_get (d : list (X * V)) (k : X) : result V :=
    match d with
    | [] => Err KeyError
    | (k', v) :: r => if eqb k k' then Ok v else dict_get r k
    end.
  Fixpoint dict_set (d : list (X * V)) (k : X) (v : V) : list (X * V) :=
    match d with
    | [] => [(k, v)]
    | (k', w) :: r => if eqb k k' then (k', v) :: r else (k', w) :: dict_set r k v
    end.
  Definition dict_mem (d : list (X * V)) (k : X) : bool := existsb (fun kv => eqb k (fst kv)) d.
End Containers.

Fixpoint map_result {A B : Type} (f : A -> result B) (l : list A) : result (list B) :=
  match l with
  | [] => Ok []
  | a :: r => match f a with
              | Err e => Err e
              | Ok b => match map_result f r with Err e => Err e | Ok r' => Ok (b :: r') end
              end
  end.

Definition py_max (l : list Z) : result Z :=
  match l with [] => Err ValueError | x :: r => Ok (fold_left Z.max r x) end.

(* set union `a | b`: the elements of a, then the elements of b that are not already there, in order *)
Definition set_union {X : Type} (eqb : X -> X -> bool) (a b : list X) : list X := fold_left (set_add eqb) b a.

(* ---------------------------------------------------------------- translated code *)
Section Links.
'''


def section_header():
    out = []
    for names, ty in SECTION_VARS:
        out.append('Variable%s %s : %s.' % ('s' if ' ' in names else '', names, ty))
    out.append('')
    out.append('(* effects of the LinkManager methods on the rest of the system, in program order *)')
    out.append('Inductive event : Type :=')
    out.append('| EvUpdate                                        (* self.update_externally_derivable_components() *)')
    out.append('| EvSet (d : D) (comps : list (C * (D * L))).     (* d._set_externally_derivable_components(comps) *)')
    out.append('')
    return '\n'.join(out) + '\n'


def find_function(mod, name):
    fns = [n for n in mod.body if isinstance(n, ast.FunctionDef) and n.name == name]
    if len(fns) != 1:
        raise Unsupported('function %s not found exactly once' % name)
    return fns[0]


def strip_decorators(fn, allowed):
    for d in fn.decorator_list:
        if ast.unparse(d) not in allowed:
            fail(fn, 'decorator %s' % ast.unparse(d))


def generate():
    mod = ast.parse(open(SRC).read())
    parts = [PRELUDE, section_header()]
    for name, ptypes in (('accessible_links', {'cids': 'listC', 'links': 'listL'}),
                         ('discover_links', {'data': 'D', 'links': 'listL'}),
                         ('find_dependents', {'data': 'D', 'link': 'L'})):
        fn = find_function(mod, name)
        strip_decorators(fn, ())
        parts.append(translate_function(fn, ptypes))
    cls = [n for n in mod.body if isinstance(n, ast.ClassDef) and n.name == 'LinkManager']
    if len(cls) != 1:
        raise Unsupported('class LinkManager not found exactly once')
    meths = {n.name: n for n in cls[0].body if isinstance(n, ast.FunctionDef)}
    parts.append(methods(meths))
    parts.append('End Links.\n')
    text = '\n'.join(parts)
    if not os.path.exists(OUT) or open(OUT).read() != text:
        open(OUT, 'w').write(text)


def const_defaults(fn):
    """default values of the trailing parameters (constants only)"""
    names = [a.arg for a in fn.args.args]
    out = {}
    for n, d in zip(names[len(names) - len(fn.args.defaults):], fn.args.defaults):
        if isinstance(d, ast.Constant) and isinstance(d.value, bool):
            out[n] = 'true' if d.value else 'false'
        elif isinstance(d, ast.Constant) and d.value is None:
            out[n] = None
        else:
            fail(fn, 'default value of %s' % n)
    return out


# update_externally_derivable_components: the statements before the loop that is translated decide which datasets are
# updated; they are not translated (None tests, isinstance filter) but pinned: any change to them aborts the translation
UPDATE_HEADER = [
    "if self.data_collection is None:\n    if data is None:\n        return\n    else:\n        data_collection = [data]\n"
    "else:\n    data_collection = self.data_collection",
    "data_collection = [d for d in data_collection if isinstance(d, BaseCartesianData)]",
]


def methods(meths):
    out = []
    for n in ('remove_link', '_component_removed', '_data_removed', 'update_externally_derivable_components'):
        if n not in meths:
            raise Unsupported('LinkManager.%s not found' % n)
    # ---- remove_link(link, update_external=True) for a single plain link
    fn = meths['remove_link']
    strip_decorators(fn, ('contract(link=ComponentLink)',))
    d = const_defaults(fn)
    out.append(translate_function(
        fn, {'link': 'E', 'update_external': 'bool'}, method=True,
        const_false=('isinstance(link, list)', 'isinstance(link, JoinLink)'), defaults=d,
        doc=' -- for one link that is neither a list nor a JoinLink: `isinstance(link, list)` and `isinstance(link, JoinLink)` are false'))
    # ---- the hub handlers
    for n in ('_component_removed', '_data_removed'):
        fn = meths[n]
        strip_decorators(fn, ())
        out.append(translate_function(fn, {'msg': 'M'}, method=True))
    # ---- update_externally_derivable_components: the loop that installs the derived components
    fn = meths['update_externally_derivable_components']
    strip_decorators(fn, ('contract(data=Data)',))
    if [a.arg for a in fn.args.args] != ['self', 'data'] or const_defaults(fn) != {'data': None}:
        fail(fn, 'signature')
    body = [b for b in fn.body if not (isinstance(b, ast.Expr) and isinstance(b.value, ast.Constant))]
    if len(body) < 3 or [ast.unparse(b) for b in body[:2]] != UPDATE_HEADER:
        fail(fn, 'the statements that select the datasets to update changed (pinned text, see UPDATE_HEADER)')
    loop = body[2]
    if not (isinstance(loop, ast.For) and ast.unparse(loop.iter) == 'data_collection'):
        fail(loop, 'expected the loop over data_collection')
    for later in body[3:]:
        for node in ast.walk(later):
            if isinstance(node, ast.Attribute) and node.attr in ('_set_externally_derivable_components', '_external_links'):
                fail(node, 'statement after the translated loop touches the derived components / the links')
    slice_fn = ast.FunctionDef(name='update_loop', args=ast.arguments(posonlyargs=[], args=[ast.arg(arg='self'), ast.arg(arg='data_collection')],
                                                                       kwonlyargs=[], kw_defaults=[], defaults=[]),
                               body=[loop], decorator_list=[], lineno=loop.lineno, end_lineno=loop.end_lineno, col_offset=0)
    out.append(translate_function(slice_fn, {'data_collection': 'listD'}, method=True,
                                  doc=' -- the loop `for data in data_collection` of update_externally_derivable_components; '
                                      '`self._links | self._inverse_links` is the Section variable links_in_force'))
    # ---- the properties _links, _inverse_links, links
    for n, coq_name, doc in (
            ('_links', 'lm_links', ' -- sets of links are duplicate-free lists (leqb); self.data_collection is None / Some datasets; '
             "getattr(data, 'links', []) is data_links_attr data; an entry e of _external_links with is_collection e is iterated as "
             'coll_links e, otherwise it is the link entry_link e'),
            ('_inverse_links', 'lm_inverse_links', ' -- iteration over the set self._links goes through set_iter_L; '
             '`f for x in it if f is not None` (f = link.inverse : option L) is translated from the syntax tree as '
             'flat_map (fun x => match f with Some v_ => [v_] | None => [] end) it (see genexp_list: accepted only when the '
             'last filter is `<the element expression> is not None`), not through an option_get helper'),
            ('links', 'lm_links_list', ' -- list(<set>) goes through set_iter_L')):
        if n not in meths:
            raise Unsupported('LinkManager.%s not found' % n)
        strip_decorators(meths[n], ('property',))
        if [ast.unparse(d) for d in meths[n].decorator_list] != ['property']:
            fail(meths[n], 'expected a property')
        out.append(translate_property(meths[n], coq_name, doc))
    # ---- the expression handed to discover_links in the loop translated above (there: the variable links_in_force)
    calls = [c for c in ast.walk(loop) if isinstance(c, ast.Call) and isinstance(c.func, ast.Name) and c.func.id == 'discover_links']
    if len(calls) != 1 or len(calls[0].args) != 2 or calls[0].keywords:
        fail(loop, 'expected exactly one call discover_links(data, <links>) in the loop')
    node = calls[0].args[1]
    if ast.unparse(node) not in SELF_EXPRS:
        fail(node, 'the links handed to discover_links are not the expression named links_in_force')
    if not (isinstance(node, ast.BinOp) and isinstance(node.op, ast.BitOr)
            and all(isinstance(x, ast.Attribute) and isinstance(x.value, ast.Name) and x.value.id == 'self'
                    and 'prop.' + x.attr in FUNCS for x in (node.left, node.right))):
        fail(node, 'expected <translated property of self> | <translated property of self>')
    ret = ast.Return(value=node, lineno=node.lineno, end_lineno=node.end_lineno, col_offset=0)
    expr_fn = ast.FunctionDef(name='links_in_force', args=ast.arguments(posonlyargs=[], args=[ast.arg(arg='self')], kwonlyargs=[],
                                                                        kw_defaults=[], defaults=[]),
                              body=[ret], decorator_list=[], lineno=node.lineno, end_lineno=node.end_lineno, col_offset=0)
    out.append(translate_property(expr_fn, 'lm_links_in_force',
                                  ' -- the expression `%s` of update_externally_derivable_components (second argument of '
                                  'discover_links), the value the variable links_in_force of lm_update_loop stands for' % ast.unparse(node),
                                  kind='expression'))
    # ---- add_link(link, update_external=True) for a single entry that is neither a list nor a JoinLink
    if 'add_link' not in meths:
        raise Unsupported('LinkManager.add_link not found')
    fn = meths['add_link']
    strip_decorators(fn, ())
    out.append(translate_function(
        fn, {'link': 'E', 'update_external': 'bool'}, method=True,
        const_false=('isinstance(link, list)', 'isinstance(link, JoinLink)'), defaults=const_defaults(fn),
        isinstance_vars=ISINSTANCE_VARS,
        doc=' -- for one entry that is neither a list nor a JoinLink: `isinstance(link, list)` and `isinstance(link, JoinLink)` '
            'are false; isinstance(link, LinkCollection) is is_collection; link.inverse is entry_inverse link : result (option E) '
            '(AttributeError on a LinkCollection = Err, None = no inverse) and is evaluated only where Python evaluates it'))
    return '\n'.join(out)


if __name__ == '__main__':
    try:
        generate()
    except Unsupported as e:
        print('TRANSLATION-FAILED: %s' % e)
        sys.exit(3)
    print('ok', OUT)
