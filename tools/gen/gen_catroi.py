#!/usr/bin/env python3
"""
Regenerate coq/gen/Gen_catroi.v from the current source of glue/core/roi.py (CategoricalROI.from_range, .update_categories,
.contains) and glue/core/subset.py (the decision tree of roi_to_subset_state).  Fail-closed: every construct that is not listed
here aborts the translation (the check then reports itself broken) - nothing is approximated.

from_range(categories, lo, hi)      a sequence of assignments `name = <numeric expr>`, then `roi = CategoricalROI()`,
                                    `roi.update_categories(categories[<a>:<b>])`, `return roi`
    numeric expr  int / float constants, names, + - *, unary -, `A if C else B`, np.ceil / np.floor / math.ceil / math.floor
                  (rational -> integer: Qceiling / Qfloor), np.intp / int / np.int64 of an INTEGER-valued expression (identity;
                  of a non-integer it would truncate: rejected), comparisons < <= > >= == != (rational when one side is), and/or/not
update_categories(categories)       `self.categories = E`, E built from np.unique(.) -> np_unique, self._categorical_helper(.) -> identity
contains(x, y), for one element x   `if C: return E [else:] name = E ... return E`
    expr          self.categories (may be None), `. is None`, `. is not None`, len(.), np.zeros/np.ones(x.shape, dtype=bool) -> false/true,
                  self._categorical_helper(x) -> x, np.minimum/np.maximum, np.searchsorted(A, v[, side=...]), A[i] (Python indexing),
                  == != < <= > >= on integers/labels, + - on integers, and/or/not, np.isin(v, A)
roi_to_subset_state                 if/elif/else tree; tests: isinstance(roi, C | (C, ...)), `not use_pretransform`, `<x|y>_categories is [not] None`,
                  `categories is [not] None` after the ori branch, `roi.ori == 'x'`, the rectangle alignment test (exact text), and/or/not;
                  leaves: the return statements, recognised by the exact text of the returned constructor call; the statements in between
                  must be exactly the expected ones (compared as text), so an edit inside a branch aborts the translation.
"""
import ast
import os
import sys
from fractions import Fraction

REPO = os.environ.get('GLUE_REPO', '/repo')
ROI_SRC = os.path.join(REPO, 'glue/core/roi.py')
SUB_SRC = os.path.join(REPO, 'glue/core/subset.py')
HERE = os.path.dirname(os.path.abspath(__file__))
OUT = os.path.join(os.path.dirname(os.path.dirname(HERE)), 'coq/gen/Gen_catroi.v')


class Unsupported(Exception):
    pass


def fail(node, why):
    raise Unsupported('line %s: %s: %s' % (getattr(node, 'lineno', '?'), why, ast.unparse(node)[:200] if isinstance(node, ast.AST) else node))


def nodoc(body):
    return [s for s in body if not (isinstance(s, ast.Expr) and isinstance(s.value, ast.Constant) and isinstance(s.value.value, str))]


def find_method(mod, cls, name):
    cs = [n for n in mod.body if isinstance(n, ast.ClassDef) and n.name == cls]
    if len(cs) != 1:
        raise Unsupported('class %s not found exactly once' % cls)
    fs = [n for n in cs[0].body if isinstance(n, ast.FunctionDef) and n.name == name]
    if len(fs) != 1:
        raise Unsupported('%s.%s not found exactly once' % (cls, name))
    return fs[0]


# ------------------------------------------------------------------ numeric expressions (from_range)
def to_q(t):
    return t[0] if t[1] == 'Q' else '(inject_Z %s)' % t[0]


def num(e, env):
    """-> (text, 'Z' | 'Q')"""
    if isinstance(e, ast.Constant):
        if isinstance(e.value, bool) or not isinstance(e.value, (int, float)):
            fail(e, 'constant')
        if isinstance(e.value, int):
            return '(%d)' % e.value, 'Z'
        fr = Fraction(repr(e.value))
        return '(%d # %d)' % (fr.numerator, fr.denominator), 'Q'
    if isinstance(e, ast.Name):
        if e.id not in env:
            fail(e, 'unknown name')
        return env[e.id]
    if isinstance(e, ast.UnaryOp) and isinstance(e.op, ast.USub):
        t = num(e.operand, env)
        return ('(- %s)' % t[0], 'Z') if t[1] == 'Z' else ('(- %s)%%Q' % t[0], 'Q')
    if isinstance(e, ast.BinOp) and type(e.op) in (ast.Add, ast.Sub, ast.Mult):
        a, b = num(e.left, env), num(e.right, env)
        op = {ast.Add: '+', ast.Sub: '-', ast.Mult: '*'}[type(e.op)]
        if a[1] == 'Z' and b[1] == 'Z':
            return '(%s %s %s)' % (a[0], op, b[0]), 'Z'
        return '(%s %s %s)%%Q' % (to_q(a), op, to_q(b)), 'Q'
    if isinstance(e, ast.IfExp):
        c = boolean(e.test, env)
        a, b = num(e.body, env), num(e.orelse, env)
        if a[1] == b[1]:
            return '(if %s then %s else %s)' % (c, a[0], b[0]), a[1]
        return '(if %s then %s else %s)' % (c, to_q(a), to_q(b)), 'Q'
    if isinstance(e, ast.Call) and not e.keywords and len(e.args) == 1:
        f = ast.unparse(e.func)
        a = num(e.args[0], env)
        if f in ('np.ceil', 'math.ceil', 'numpy.ceil'):
            return ('(Qceiling %s)' % a[0], 'Z') if a[1] == 'Q' else a
        if f in ('np.floor', 'math.floor', 'numpy.floor'):
            return ('(Qfloor %s)' % a[0], 'Z') if a[1] == 'Q' else a
        if f in ('np.intp', 'int', 'np.int64', 'np.int_'):
            if a[1] != 'Z':
                fail(e, 'integer conversion of a non-integer value (truncation) is not supported')
            return a
        if f == 'float':
            return to_q(a), 'Q'
    fail(e, 'numeric expression')


def boolean(e, env):
    if isinstance(e, ast.BoolOp):
        op = ' && ' if isinstance(e.op, ast.And) else ' || '
        return '(' + op.join(boolean(v, env) for v in e.values) + ')'
    if isinstance(e, ast.UnaryOp) and isinstance(e.op, ast.Not):
        return '(negb %s)' % boolean(e.operand, env)
    if isinstance(e, ast.Compare) and len(e.ops) == 1:
        a, b = num(e.left, env), num(e.comparators[0], env)
        op = type(e.ops[0])
        if a[1] == 'Z' and b[1] == 'Z':
            z = {ast.Lt: '(%s <? %s)', ast.LtE: '(%s <=? %s)', ast.Gt: '(%s >? %s)', ast.GtE: '(%s >=? %s)', ast.Eq: '(%s =? %s)',
                 ast.NotEq: '(negb (%s =? %s))'}
            if op not in z:
                fail(e, 'comparison')
            return z[op] % (a[0], b[0])
        x, y = to_q(a), to_q(b)
        qq = {ast.Lt: 'q_lt %s %s' % (x, y), ast.LtE: 'q_le %s %s' % (x, y), ast.Gt: 'q_lt %s %s' % (y, x), ast.GtE: 'q_le %s %s' % (y, x),
              ast.Eq: 'q_eq %s %s' % (x, y), ast.NotEq: 'negb (q_eq %s %s)' % (x, y)}
        if op not in qq:
            fail(e, 'comparison')
        return '(%s)' % qq[op]
    fail(e, 'condition')


def seq_expr(e):
    """update_categories: the stored value as a function of its argument `categories`"""
    if isinstance(e, ast.Name) and e.id == 'categories':
        return 'categories'
    if isinstance(e, ast.Call) and not e.keywords and len(e.args) == 1:
        f = ast.unparse(e.func)
        if f in ('np.unique', 'numpy.unique'):
            return '(np_unique %s)' % seq_expr(e.args[0])
        if f in ('self._categorical_helper', 'np.asarray', 'np.array'):
            return seq_expr(e.args[0])
    fail(e, 'update_categories: stored value')


def gen_from_range(mod):
    fn = find_method(mod, 'CategoricalROI', 'from_range')
    if [a.arg for a in fn.args.args] != ['categories', 'lo', 'hi'] or fn.args.defaults or fn.args.vararg or fn.args.kwarg:
        fail(fn, 'from_range signature')
    up = find_method(mod, 'CategoricalROI', 'update_categories')
    ub = nodoc(up.body)
    if [a.arg for a in up.args.args] != ['self', 'categories'] or len(ub) != 1 or not isinstance(ub[0], ast.Assign) \
            or ast.unparse(ub[0].targets[0]) != 'self.categories' or len(ub[0].targets) != 1:
        fail(up, 'update_categories shape (self.categories = <expr>)')
    stored = seq_expr(ub[0].value)
    body = nodoc(fn.body)
    env = {'lo': ('lo', 'Q'), 'hi': ('hi', 'Q')}
    lets = []
    count = {}
    i = 0
    while i < len(body) and isinstance(body[i], ast.Assign) and ast.unparse(body[i].value) != 'CategoricalROI()':
        s = body[i]
        if len(s.targets) != 1 or not isinstance(s.targets[0], ast.Name):
            fail(s, 'assignment target')
        t = num(s.value, env)
        name = s.targets[0].id
        count[name] = count.get(name, 0) + 1
        cn = '%s%d' % (name, count[name])
        lets.append('let %s := %s in' % (cn, t[0]))
        env[name] = (cn, t[1])
        i += 1
    rest = body[i:]
    if len(rest) != 3 or ast.unparse(rest[0]) != 'roi = CategoricalROI()' or ast.unparse(rest[2]) != 'return roi':
        fail(fn, 'from_range tail (roi = CategoricalROI(); roi.update_categories(categories[a:b]); return roi)')
    call = rest[1]
    if not (isinstance(call, ast.Expr) and isinstance(call.value, ast.Call) and ast.unparse(call.value.func) == 'roi.update_categories'
            and len(call.value.args) == 1 and not call.value.keywords):
        fail(call, 'roi.update_categories(...) expected')
    arg = call.value.args[0]
    if not (isinstance(arg, ast.Subscript) and isinstance(arg.value, ast.Name) and arg.value.id == 'categories' and isinstance(arg.slice, ast.Slice)
            and arg.slice.step is None):
        fail(arg, 'categories[a:b] expected')

    def bound(b):
        if b is None:
            return 'None'
        t = num(b, env)
        if t[1] != 'Z':
            fail(b, 'slice bound must be an integer')
        return '(Some %s)' % t[0]
    sl = '(py_slice categories %s %s)' % (bound(arg.slice.lower), bound(arg.slice.upper))
    return ('(* CategoricalROI.from_range(categories, lo, hi): the categories the returned region stores *)\n'
            'Definition from_range_stored (categories : list Z) (lo hi : Q) : list Z :=\n  %s\n  let categories := %s in\n  %s.\n'
            % ('\n  '.join(lets), sl, stored))


# ------------------------------------------------------------------ contains
def cexpr(e, env):
    """-> (text, 'Z' | 'B' | 'OL')   (labels are integers)"""
    src = ast.unparse(e)
    if src == 'self.categories':
        return 'categories', 'OL'
    if isinstance(e, ast.Name):
        if e.id not in env:
            fail(e, 'unknown name')
        return env[e.id]
    if isinstance(e, ast.Constant) and isinstance(e.value, int) and not isinstance(e.value, bool):
        return '(%d)' % e.value, 'Z'
    if isinstance(e, ast.BoolOp):
        op = ' && ' if isinstance(e.op, ast.And) else ' || '
        parts = [cexpr(v, env) for v in e.values]
        if any(p[1] != 'B' for p in parts):
            fail(e, 'boolean operands')
        return '(' + op.join(p[0] for p in parts) + ')', 'B'
    if isinstance(e, ast.UnaryOp) and isinstance(e.op, ast.Not):
        a = cexpr(e.operand, env)
        if a[1] != 'B':
            fail(e, 'not of a non-boolean')
        return '(negb %s)' % a[0], 'B'
    if isinstance(e, ast.Compare) and len(e.ops) == 1:
        op = type(e.ops[0])
        a = cexpr(e.left, env)
        rhs = e.comparators[0]
        if op in (ast.Is, ast.IsNot):
            if not (isinstance(rhs, ast.Constant) and rhs.value is None) or a[1] != 'OL':
                fail(e, 'is / is not')
            return ('(is_none %s)' if op is ast.Is else '(negb (is_none %s))') % a[0], 'B'
        b = cexpr(rhs, env)
        if a[1] != 'Z' or b[1] != 'Z':
            fail(e, 'comparison operands')
        z = {ast.Lt: '(%s <? %s)', ast.LtE: '(%s <=? %s)', ast.Gt: '(%s >? %s)', ast.GtE: '(%s >=? %s)', ast.Eq: '(%s =? %s)', ast.NotEq: '(negb (%s =? %s))'}
        if op not in z:
            fail(e, 'comparison')
        return z[op] % (a[0], b[0]), 'B'
    if isinstance(e, ast.BinOp) and type(e.op) in (ast.Add, ast.Sub):
        a, b = cexpr(e.left, env), cexpr(e.right, env)
        if a[1] != 'Z' or b[1] != 'Z':
            fail(e, 'arithmetic operands')
        return '(%s %s %s)' % (a[0], '+' if isinstance(e.op, ast.Add) else '-', b[0]), 'Z'
    if isinstance(e, ast.Subscript) and not isinstance(e.slice, ast.Slice):
        a, i = cexpr(e.value, env), cexpr(e.slice, env)
        if a[1] != 'OL' or i[1] != 'Z':
            fail(e, 'indexing')
        return '(znth (the %s) %s)' % (a[0], i[0]), 'Z'
    if isinstance(e, ast.Call):
        f = ast.unparse(e.func)
        if src in ('np.zeros(x.shape, dtype=bool)', 'np.zeros_like(x, dtype=bool)'):
            return 'false', 'B'
        if src in ('np.ones(x.shape, dtype=bool)', 'np.ones_like(x, dtype=bool)'):
            return 'true', 'B'
        if f == 'len' and len(e.args) == 1 and not e.keywords:
            a = cexpr(e.args[0], env)
            if a[1] != 'OL':
                fail(e, 'len')
            return '(zlen (the %s))' % a[0], 'Z'
        if f == 'self._categorical_helper' and len(e.args) == 1 and not e.keywords:
            return cexpr(e.args[0], env)
        if f in ('np.minimum', 'np.maximum', 'min', 'max') and len(e.args) == 2 and not e.keywords:
            a, b = cexpr(e.args[0], env), cexpr(e.args[1], env)
            if a[1] != 'Z' or b[1] != 'Z':
                fail(e, 'min / max operands')
            return '(%s %s %s)' % ('Z.min' if f in ('np.minimum', 'min') else 'Z.max', a[0], b[0]), 'Z'
        if f == 'np.searchsorted' and len(e.args) == 2:
            side = 'left'
            for k in e.keywords:
                if k.arg != 'side' or not isinstance(k.value, ast.Constant) or k.value.value not in ('left', 'right'):
                    fail(e, 'searchsorted keyword')
                side = k.value.value
            a, v = cexpr(e.args[0], env), cexpr(e.args[1], env)
            if a[1] != 'OL' or v[1] != 'Z':
                fail(e, 'searchsorted operands')
            return '(%s (the %s) %s)' % ('np_searchsorted' if side == 'left' else 'np_searchsorted_right', a[0], v[0]), 'Z'
        if f in ('np.isin', 'np.in1d') and len(e.args) == 2 and not e.keywords:
            v, a = cexpr(e.args[0], env), cexpr(e.args[1], env)
            if a[1] != 'OL' or v[1] != 'Z':
                fail(e, 'isin operands')
            return '(zmem %s (the %s))' % (v[0], a[0]), 'B'
    fail(e, 'expression of CategoricalROI.contains')


def cblock(stmts, env):
    """statements ending in a return -> boolean text"""
    if not stmts:
        fail('contains', 'missing return')
    s = stmts[0]
    if isinstance(s, ast.Return):
        if len(stmts) != 1 or s.value is None:
            fail(s, 'return must end the block')
        t = cexpr(s.value, env)
        if t[1] != 'B':
            fail(s, 'contains must return booleans')
        return t[0]
    if isinstance(s, ast.Assign) and len(s.targets) == 1 and isinstance(s.targets[0], ast.Name):
        t = cexpr(s.value, env)
        env2 = dict(env)
        env2[s.targets[0].id] = (s.targets[0].id + '_', t[1])
        return 'let %s_ := %s in\n    %s' % (s.targets[0].id, t[0], cblock(stmts[1:], env2))
    if isinstance(s, ast.If):
        c = cexpr(s.test, env)
        if c[1] != 'B':
            fail(s, 'condition')
        then = cblock(s.body, env)
        other = cblock(s.orelse if s.orelse else stmts[1:], env)
        if s.orelse and stmts[1:]:
            fail(s, 'statements after if/else')
        return 'if %s then %s\n    else %s' % (c[0], then, other)
    fail(s, 'statement of CategoricalROI.contains')


def gen_contains(mod):
    fn = find_method(mod, 'CategoricalROI', 'contains')
    if [a.arg for a in fn.args.args] != ['self', 'x', 'y'] or fn.args.defaults:
        fail(fn, 'contains signature')
    body = cblock(nodoc(fn.body), {'x': ('x', 'Z')})
    tp = find_method(mod, 'CategoricalROI', 'to_polygon')
    if [ast.unparse(s) for s in nodoc(tp.body)] != ['raise NotImplementedError']:
        fail(tp, 'CategoricalROI.to_polygon is expected to raise NotImplementedError')
    return ('(* CategoricalROI.contains(x, y) for one element x (a label); categories = self.categories, possibly None *)\n'
            'Definition contains (categories : option (list Z)) (x : Z) : bool :=\n    %s.\n\n'
            '(* CategoricalROI.to_polygon raises NotImplementedError *)\nDefinition categorical_to_polygon_raises : bool := true.\n' % body)


# ------------------------------------------------------------------ roi_to_subset_state
CLASSES = {'RangeROI': 'CRange', 'RectangularROI': 'CRectangular', 'CategoricalROI': 'CCategorical', 'PolygonalROI': 'CPolygonal',
           'CircularROI': 'CCircular', 'EllipticalROI': 'CElliptical', 'CircularAnnulusROI': 'CAnnulus'}
ALIGNED = 'np.isclose(roi.theta % np.pi, 0.0, atol=1e-09)'
ORI_BLOCK = ("if roi.ori == 'x':\n    att = x_att\n    categories = x_categories\nelse:\n    att = y_att\n    categories = y_categories")
RECT_BLOCK = ['range1 = XRangeROI(roi.xmin, roi.xmax)', 'range2 = YRangeROI(roi.ymin, roi.ymax)',
              'subset1 = roi_to_subset_state(range1, x_att=x_att, x_categories=x_categories)',
              'subset2 = roi_to_subset_state(range2, y_att=y_att, y_categories=y_categories)']
LATTICE_BLOCK = ['selection = {}',
                 'for code, label in enumerate(x_categories):\n    n_other = len(y_categories)\n    y = np.arange(n_other)\n    x = np.repeat(code, n_other)\n'
                 '    in_poly = roi.contains(x, y)\n    categories = y_categories[in_poly]\n    if len(categories) > 0:\n        selection[label] = set(categories)']
MULTI_PRE = ['selection = {}']
MULTI_ORI = ("if x_categories is not None:\n    categories = x_categories\n    cat_att = x_att\n    num_att = y_att\n    x, y = roi.to_polygon()\n"
             "else:\n    categories = y_categories\n    cat_att = y_att\n    num_att = x_att\n    y, x = roi.to_polygon()")
MULTI_LOOP = ('for code, label in enumerate(categories):\n    segments = polygon_line_intersections(x, y, xval=code)\n'
              '    if len(segments) > 0:\n        selection[label] = segments')
ROI_BLOCK = ['subset_state = RoiSubsetState()', 'subset_state.xatt = x_att', 'subset_state.yatt = y_att', 'subset_state.roi = roi']
POLYGONISE = 'roi = PolygonalROI(*roi.to_polygon())'


def dcond(e, st):
    src = ast.unparse(e)
    if isinstance(e, ast.BoolOp):
        op = ' && ' if isinstance(e.op, ast.And) else ' || '
        return '(' + op.join(dcond(v, st) for v in e.values) + ')'
    if isinstance(e, ast.UnaryOp) and isinstance(e.op, ast.Not):
        return '(negb %s)' % dcond(e.operand, st)
    if src == 'use_pretransform':
        return 'pre'
    if src == ALIGNED:
        return 'aligned'
    if src == "roi.ori == 'x'":
        return 'ori_x'
    if isinstance(e, ast.Call) and ast.unparse(e.func) == 'isinstance' and len(e.args) == 2 and ast.unparse(e.args[0]) == 'roi' and not e.keywords:
        cs = e.args[1].elts if isinstance(e.args[1], ast.Tuple) else [e.args[1]]
        names = [ast.unparse(c) for c in cs]
        if any(n not in CLASSES for n in names):
            fail(e, 'isinstance against an unknown class')
        return '(' + ' || '.join('cls_eqb cls %s' % CLASSES[n] for n in names) + ')'
    for name, var in (('x_categories', 'xc'), ('y_categories', 'yc'), ('categories', None)):
        for neg, text in ((False, '%s is not None' % name), (True, '%s is None' % name)):
            if src == text:
                if var is None:
                    if not st.get('ori'):
                        fail(e, '`categories` tested before the ori branch')
                    var = '(if ori_x then xc else yc)'
                return '(negb %s)' % var if neg else var
    fail(e, 'condition of roi_to_subset_state')


def dblock(stmts, st):
    """a block of roi_to_subset_state that ends in a return -> leaf text"""
    texts = [ast.unparse(s) for s in stmts]
    if not stmts:
        fail('roi_to_subset_state', 'a branch without return')
    last = stmts[-1]
    if isinstance(last, ast.If) and len(stmts) >= 1 and last.orelse:
        pre = texts[:-1]
        st2 = dict(st)
        if pre == [ORI_BLOCK]:
            st2['ori'] = True
        elif pre == MULTI_PRE and False:
            pass
        elif pre:
            fail(stmts[0], 'unexpected statements before an if/else')
        c = dcond(last.test, st2)
        return '(if %s then %s else %s)' % (c, dblock(last.body, st2), dblock(last.orelse, st2))
    if not isinstance(last, ast.Return):
        fail(last, 'a branch must end in return or if/else')
    ret = texts[-1]
    pre = texts[:-1]
    if ret == 'return CategoricalROISubsetState.from_range(categories, att, roi.min, roi.max)' and not pre and st.get('ori'):
        return '(LFromRange ori_x)'
    if ret == 'return RangeSubsetState(roi.min, roi.max, att)' and not pre and st.get('ori'):
        return '(LRange ori_x)'
    if ret == 'return AndState(subset1, subset2)' and pre == RECT_BLOCK:
        return 'LAndOfRanges'
    if ret == 'return CategoricalROISubsetState(roi=roi, att=x_att)' and not pre:
        return 'LCategorical'
    if ret == 'return CategoricalROISubsetState2D(selection, x_att, y_att)' and pre == LATTICE_BLOCK:
        return 'LLattice2D'
    if ret == 'return CategoricalMultiRangeSubsetState(selection, cat_att=cat_att, num_att=num_att)' and pre == MULTI_PRE + [MULTI_ORI, MULTI_LOOP]:
        return '(LMultiRange xc)'
    if ret == 'return subset_state':
        if pre == ROI_BLOCK:
            return '(LRoi false)'
        if len(stmts) == len(ROI_BLOCK) + 2 and pre[1:] == ROI_BLOCK and isinstance(stmts[0], ast.If) and not stmts[0].orelse \
                and [ast.unparse(s) for s in stmts[0].body] == [POLYGONISE]:
            return '(LRoi %s)' % dcond(stmts[0].test, st)
    fail(last, 'unrecognised branch of roi_to_subset_state (statements: %r)' % pre)


def gen_dispatch(mod):
    fs = [n for n in mod.body if isinstance(n, ast.FunctionDef) and n.name == 'roi_to_subset_state']
    if len(fs) != 1:
        raise Unsupported('roi_to_subset_state not found exactly once')
    fn = fs[0]
    if [a.arg for a in fn.args.args] != ['roi', 'x_att', 'y_att', 'x_categories', 'y_categories', 'use_pretransform']:
        fail(fn, 'roi_to_subset_state signature')
    if ast.unparse(fn.args.defaults[-1]) != 'False':
        fail(fn, 'use_pretransform default')
    body = nodoc(fn.body)
    leaf = dblock(body, {})
    return ('(* roi_to_subset_state: which subset state is built.  cls = class of the region, ori_x = (roi.ori == \'x\'), pre = use_pretransform,\n'
            '   xc / yc = x_categories / y_categories is not None, aligned = the rectangle test np.isclose(roi.theta %% np.pi, 0.0, atol=1e-09) *)\n'
            'Definition dispatch (cls : roi_class) (ori_x pre xc yc aligned : bool) : dleaf :=\n  %s.\n' % leaf)


def generate():
    roi_mod = ast.parse(open(ROI_SRC).read())
    sub_mod = ast.parse(open(SUB_SRC).read())
    out = ('(* GENERATED by tools/gen/gen_catroi.py from glue/core/roi.py and glue/core/subset.py on every run -- do not edit. *)\n'
           'From Coq Require Import ZArith List Bool QArith Qround.\nImport ListNotations.\n'
           'From GV Require Import Common.PyInt C09.Model C09.PyNum.\nOpen Scope Z_scope.\n\n')
    out += gen_from_range(roi_mod) + '\n' + gen_contains(roi_mod) + '\n' + gen_dispatch(sub_mod)
    if not os.path.exists(OUT) or open(OUT).read() != out:
        open(OUT, 'w').write(out)


if __name__ == '__main__':
    try:
        generate()
    except Unsupported as e:
        print('TRANSLATION-FAILED: %s' % e)
        sys.exit(3)
    print('ok', OUT)
