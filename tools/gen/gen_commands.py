#!/usr/bin/env python3
r"""
Regenerate coq/gen/Gen_commands.v from the *current* source of

  glue/core/edit_subset_mode.py  EditSubsetMode.mode / edit_subset (getters), _broadcast, edit_subset (setter), _combine_data, update
                                 (+ the names of the module-level `*Mode` functions; their bodies are Gen_combine's)
  glue/core/data_collection.py   DataCollection.__contains__
  glue/core/command.py           _snapshot_subsets, _restore_subsets, AddData.do/undo, RemoveData.do/undo, ApplyROI.do/undo,
                                 ApplySubsetState.do/undo

translated statement by statement / expression by expression into state-passing Gallina.  The state is a `session`
(the heap of Gen_groups = session.data_collection, the selection of every SubsetGroup, EditSubsetMode's _edit_subset / _mode /
data_collection, a trace of EditSubsetMessage broadcasts) and, in command.py, the command object (`cobj`: its keyword
arguments and what do() records on it).  Calls into DataCollection (append, remove, new_subset_group, remove_subset_group) and
Subset.delete go to the functions Gen_groups translated; `mode(s, new_state)` goes to the mode functions Gen_combine translated.
FAIL-CLOSED: every accepted form is listed here; anything else aborts with file and line (exit 3).

Types of variables / expressions
  session, esm (session.edit_subset_mode), dc (the session's DataCollection): no Gallina value, they live in `ss`
  cobj (a command: `self` in command classes, `cmd`), data, group (Z: object ids), sub (GroupedSubset reference of Gen_groups),
  state (S), mode, optmode, elist (a Python list object of groups: identity + items), grouplist, datalist, sublist,
  gdict (dict keyed by groups), sdict (dict keyed by subsets), optgroup, bool, int, msg
Assumptions that are checked on the source (abort otherwise)
  Session.__init__ contains `self.edit_subset_mode.data_collection = self.data_collection`  (so esm.data_collection IS the heap)
  DataCollection.subset_groups is `return tuple(self._subset_groups)`, DataCollection.__iter__ is `return iter(self._data)`,
  BaseData.subsets is `return tuple(self._subsets)`, GroupedSubset.subset_state = Pointer('group.subset_state'),
  glue.utils.as_list returns a list argument as it is, DataCollection.new_subset_group ends with `return result`
  where result = SubsetGroup(.., subset_state=subset_state, ..); `cmd.data_collection` is taken to be the session's collection.

Expressions
  names (locals, parameters, the `*Mode` functions), None, True, False, integer literals, {}
  S.data_collection, S.edit_subset_mode (session)      C.data_collection, C.data, C.subset_state, C.roi, C._added, C._removed,
  C.old_groups, C.old_states, C.old_edit_subset (cobj)  C.extra.get('override_mode')
  E._edit_subset, E._mode, E.edit_subset, E.mode (esm; the last two call the translated getters), E.data_collection
  D._data, D.subset_groups (dc)   X.subsets (data)   G.subset_state (group)   X.subset_state (sub: through the Pointer)
  A is None / is not None (optmode; esm.data_collection; an elist: statically false)   A is B / is not B (elist: identity; mode)
  A in B / not in B: data in dc (-> translated __contains__), data in datalist, data in grouplist (statically false),
                     group | optgroup in gdict, sub in sdict
  A == B (int)   len(L) (elist)   not E (bool; elist: empty)   A and B, A or B (bool)   optmode or mode
  getattr(X, 'group', None) (sub)   X.copy() (state)   as_list(L) (elist)   dict((k, v) for k in L)
  any([d.label == obj for d in L]) with obj a dataset: statically false     isinstance(d, (Data, DataCollection)) with d : dc: statically true
  [E] (allocation of a new list object)   D.new_subset_group(subset_state=E) (effect + result)   EditSubsetMessage(self, L, M)
Statements
  docstrings, logging.getLogger(..).debug(..), return, return E (getters / __contains__ only), raise RuntimeError(..) / TypeError(..)
  if / elif / else (a statically decided test keeps one side; a side ending in return/raise makes the rest the other side;
                    otherwise both sides fall through and the variables they rebind are joined)
  v = E    C.attr = E    C.old_states[K] = V    E.edit_subset = V (translated setter)    E._edit_subset = V
  G.subset_state = V    X.subset_state = V (sub)
  for v in L: / for a, b in D.items():   over  D.subset_groups | dc | X.subsets | as_list(L) | gdict.items() | sdict.items()
                                         (no return / raise / raising call inside)
  calls: translated functions and methods;  M(s, new_state) with M : mode;  D.append(x), D.remove(x), D.remove_subset_group(g),
         X.delete() (Gen_groups);  D.hub.broadcast(msg);  C.apply_func(C.roi) (a parameter of the generated function)
Decorators @property, @X.setter, @contract(..), @abstractmethod are accepted; `focus_data` of update is not used by its body (checked).
"""
import ast
import os
import sys

REPO = os.environ.get('GLUE_REPO', '/repo')
HERE = os.path.dirname(os.path.abspath(__file__))
OUT = os.path.join(os.path.dirname(os.path.dirname(HERE)), 'coq/gen/Gen_commands.v')


class Unsupported(Exception):
    pass


CUR = {}


def fail(node, why):
    raise Unsupported('%s line %s: %s: %s' % (CUR.get('file', '?'), getattr(node, 'lineno', '?'), why, ast.unparse(node)[:140]))


VALUELESS = ('session', 'esm', 'dc')
MODES = []          # names of the module-level *Mode functions of edit_subset_mode.py, in source order
TRANSLATED = {}     # key -> dict(name, kind, params=[(name, type)], raising, ret)
COQ_TYPE = {'data': 'Z', 'group': 'Z', 'sub': 'sub', 'state': 'S', 'mode': 'mode_name', 'optmode': 'option mode_name', 'elist': 'elist',
            'bool': 'bool', 'int': 'Z', 'cobj': 'cobj', 'grouplist': 'list Z', 'datalist': 'list Z'}
COBJ_FIELDS = {'data': ('c_data', 'data'), 'subset_state': ('c_subset_state', 'state'), 'roi': ('c_roi', 'state'),
               '_added': ('c_added', 'bool'), '_removed': ('c_removed', 'bool'), 'old_groups': ('c_old_groups', 'gdict'),
               'old_states': ('c_old_states', 'sdict'), 'old_edit_subset': ('c_old_edit_subset', 'elist')}
RESERVED = {'end', 'in', 'let', 'match', 'with', 'fun', 'if', 'then', 'else', 'return', 'as', 'at', 'fix', 'forall', 'exists', 'Type',
            'Set', 'Prop', 'ss', 'S', 'P', 'copy', 'state', 'mode'}


def vn(name):
    return name + '_' if name in RESERVED else name


class Fn:
    def __init__(self, key, kind, cvar, raising, ret):
        self.key, self.kind, self.cvar, self.raising, self.ret = key, kind, cvar, raising, ret
        self.pre = []
        self.tmp = 0
        self.touched = set()
        self.apply_func = False

    def fresh(self):
        self.tmp += 1
        return 't%d_' % self.tmp

    def done(self):
        if self.kind == 'esm':
            return 'SDone ss' if self.raising else 'ss'
        c = vn(self.cvar)
        return 'CDone %s ss' % c if self.raising else '(%s, ss)' % c

    def raised(self, code):
        if self.kind == 'esm':
            return 'SRaised %s ss' % code
        return 'CRaised %s %s ss' % (code, vn(self.cvar))


def is_name(e, n=None):
    return isinstance(e, ast.Name) and (n is None or e.id == n)


def take_pre(F):
    p, F.pre = F.pre, []
    return ''.join(p)


# ------------------------------------------------------------------ expressions
def ex(e, env, F):
    """-> (gallina text, type); effects of sub-expressions are hoisted into F.pre in evaluation order"""
    if isinstance(e, ast.Constant):
        if e.value is True:
            return 'true', 'bool'
        if e.value is False:
            return 'false', 'bool'
        if e.value is None:
            return 'None', 'none'
        if isinstance(e.value, int):
            return ('%d' % e.value) if e.value >= 0 else '(%d)' % e.value, 'int'
        fail(e, 'constant')
    if isinstance(e, ast.Dict) and not e.keys:
        return '[]', 'emptydict'
    if isinstance(e, ast.Name):
        if e.id in env:
            t = env[e.id]
            return ('' if t in VALUELESS else vn(e.id)), t
        if e.id in MODES and e.id in CUR['mode_names_visible']:
            return 'M_' + e.id, 'mode'
        fail(e, 'unknown variable')
    if isinstance(e, ast.List):
        if len(e.elts) != 1:
            fail(e, 'list display with %d elements' % len(e.elts))
        v, t = ex(e.elts[0], env, F)
        if t != 'group':
            fail(e, 'list of a %s' % t)
        r = F.fresh()
        F.pre.append("let '(%s, ss) := new_list [%s] ss in\n" % (r, v))
        F.touched.add('%ss')
        return r, 'elist'
    if isinstance(e, ast.Attribute):
        v, t = ex(e.value, env, F)
        a = e.attr
        if t == 'session' and a == 'data_collection':
            return '', 'dc'
        if t == 'session' and a == 'edit_subset_mode':
            return '', 'esm'
        if t == 'cobj' and a == 'data_collection':
            return '', 'dc'
        if t == 'cobj' and a in COBJ_FIELDS:
            f, ft = COBJ_FIELDS[a]
            return '(%s %s)' % (f, v), ft
        if t == 'esm':
            if a == '_edit_subset':
                return '(s_edit ss)', 'elist'
            if a == '_mode':
                return '(s_mode ss)', 'mode'
            if a in ('edit_subset', 'mode'):
                k = 'EditSubsetMode.%s.get' % a
                if k not in TRANSLATED:
                    fail(e, 'property read before its getter is translated')
                return '(%s ss)' % TRANSLATED[k]['name'], TRANSLATED[k]['ret']
            if a == 'data_collection':
                return '', 'dc'
        if t == 'dc':
            if a == '_data':
                return '(h_data (s_heap ss))', 'datalist'
            if a == 'subset_groups':
                if not CUR['dc_subset_groups_ok']:
                    fail(e, 'DataCollection.subset_groups is not `return tuple(self._subset_groups)`')
                return '(h_groups (s_heap ss))', 'grouplist'
        if t == 'data' and a == 'subsets':
            if not CUR['data_subsets_ok']:
                fail(e, 'BaseData.subsets is not `return tuple(self._subsets)`')
            return '(subsets_of_data %s (s_heap ss))' % v, 'sublist'
        if t == 'group' and a == 'subset_state':
            return '(s_gstate ss %s)' % v, 'state'
        if t == 'sub' and a == 'subset_state':
            if not CUR['pointer_ok']:
                fail(e, 'GroupedSubset.subset_state is not Pointer("group.subset_state")')
            return '(s_gstate ss (sub_group %s))' % v, 'state'
        fail(e, 'attribute of a value of type %s' % t)
    if isinstance(e, ast.Compare) and len(e.ops) == 1:
        op, a, b = e.ops[0], e.left, e.comparators[0]
        if isinstance(op, (ast.Is, ast.IsNot)):
            neg = isinstance(op, ast.IsNot)
            if isinstance(b, ast.Constant) and b.value is None:
                va, ta = ex(a, env, F)
                if ta == 'optmode':
                    r = '(match %s with Some _ => false | None => true end)' % va
                elif ta == 'dc' and isinstance(a, ast.Attribute) and ex(a.value, env, F)[1] == 'esm':
                    r = '(negb (s_mode_dc ss))'
                elif ta in ('elist', 'data', 'group', 'sub', 'state', 'mode'):
                    return ('true' if neg else 'false'), ('static-true' if neg else 'static-false')
                else:
                    fail(e, 'None test on a %s' % ta)
                return ('(negb %s)' % r if neg else r), 'bool'
            (va, ta), (vb, tb) = ex(a, env, F), ex(b, env, F)
            if ta == tb == 'elist':
                r = '(el_id %s =? el_id %s)' % (va, vb)
            elif ta == tb == 'mode':
                r = '(mode_eqb %s %s)' % (va, vb)
            elif ta == tb and ta in ('data', 'group'):
                r = '(%s =? %s)' % (va, vb)
            else:
                fail(e, 'identity test between %s and %s' % (ta, tb))
            return ('(negb %s)' % r if neg else r), 'bool'
        if isinstance(op, (ast.In, ast.NotIn)):
            neg = isinstance(op, ast.NotIn)
            (va, ta), (vb, tb) = ex(a, env, F), ex(b, env, F)
            if ta == 'data' and tb == 'dc':
                k = 'DataCollection.__contains__'
                if k not in TRANSLATED:
                    fail(e, '`in` on a DataCollection before __contains__ is translated')
                r = '(%s %s ss)' % (TRANSLATED[k]['name'], va)
            elif ta == 'data' and tb == 'datalist':
                r = '(hmemz %s %s)' % (va, vb)
            elif ta == 'data' and tb == 'grouplist':
                return '(* %s: a dataset is not a SubsetGroup *) false' % ast.unparse(e), 'static-false'
            elif ta == 'group' and tb == 'gdict':
                r = '(gdict_mem %s %s)' % (va, vb)
            elif ta == 'optgroup' and tb == 'gdict':
                r = '(gdict_mem_opt %s %s)' % (va, vb)
            elif ta == 'sub' and tb == 'sdict':
                r = '(sdict_mem %s %s)' % (va, vb)
            else:
                fail(e, 'membership of %s in %s' % (ta, tb))
            return ('(negb %s)' % r if neg else r), 'bool'
        if isinstance(op, ast.Eq):
            (va, ta), (vb, tb) = ex(a, env, F), ex(b, env, F)
            if ta == tb == 'int':
                return '(%s =? %s)' % (va, vb), 'bool'
            if {ta, tb} == {'label', 'data'}:
                return '(* %s: a label is not a dataset *) false' % ast.unparse(e), 'static-false'
            fail(e, 'equality between %s and %s' % (ta, tb))
        fail(e, 'comparison')
    if isinstance(e, ast.BoolOp):
        parts = [ex(v, env, F) for v in e.values]
        if isinstance(e.op, ast.Or) and len(parts) == 2 and parts[0][1] == 'optmode' and parts[1][1] == 'mode':
            return '(match %s with Some m_ => m_ | None => %s end)' % (parts[0][0], parts[1][0]), 'mode'
        for _, t in parts:
            if t not in ('bool', 'static-false', 'static-true'):
                fail(e, 'and/or over a %s' % t)
        sym = ' && ' if isinstance(e.op, ast.And) else ' || '
        return '(' + sym.join(v for v, _ in parts) + ')', 'bool'
    if isinstance(e, ast.UnaryOp) and isinstance(e.op, ast.Not):
        v, t = ex(e.operand, env, F)
        if t == 'bool':
            return '(negb %s)' % v, 'bool'
        if t == 'elist':
            return '(list_is_empty (el_items %s))' % v, 'bool'
        fail(e, 'not of a %s' % t)
    if isinstance(e, ast.Call):
        fn = e.func
        txt = ast.unparse(fn)
        if is_name(fn, 'len') and len(e.args) == 1 and not e.keywords:
            v, t = ex(e.args[0], env, F)
            if t == 'elist':
                return '(Z.of_nat (length (el_items %s)))' % v, 'int'
            fail(e, 'len of a %s' % t)
        if is_name(fn, 'getattr') and len(e.args) == 3 and not e.keywords and isinstance(e.args[1], ast.Constant) \
                and e.args[1].value == 'group' and isinstance(e.args[2], ast.Constant) and e.args[2].value is None:
            v, t = ex(e.args[0], env, F)
            if t != 'sub':
                fail(e, 'getattr(<%s>, "group", None)' % t)
            return '(Some (sub_group %s))' % v, 'optgroup'
        if is_name(fn, 'as_list') and len(e.args) == 1 and not e.keywords:
            if not CUR['as_list_ok']:
                fail(e, 'glue.utils.as_list does not return a list argument as it is')
            v, t = ex(e.args[0], env, F)
            if t != 'elist':
                fail(e, 'as_list of a %s' % t)
            return '(el_items %s)' % v, 'grouplist'
        if is_name(fn, 'dict') and len(e.args) == 1 and not e.keywords and isinstance(e.args[0], ast.GeneratorExp):
            g = e.args[0]
            if len(g.generators) != 1 or g.generators[0].ifs or not is_name(g.generators[0].target) \
                    or not (isinstance(g.elt, ast.Tuple) and len(g.elt.elts) == 2):
                fail(e, 'dict(generator) form')
            lv, lt = ex(g.generators[0].iter, env, F)
            if lt != 'grouplist':
                fail(e, 'dict over a %s' % lt)
            var = g.generators[0].target.id
            env2 = dict(env, **{var: 'group'})
            (kv, kt), (vv, vt) = ex(g.elt.elts[0], env2, F), ex(g.elt.elts[1], env2, F)
            if (kt, vt) != ('group', 'state'):
                fail(e, 'dict of (%s, %s)' % (kt, vt))
            return '(gdict_of_pairs (map (fun %s => (%s, %s)) %s))' % (vn(var), kv, vv, lv), 'gdict'
        if is_name(fn, 'any') and len(e.args) == 1 and not e.keywords and isinstance(e.args[0], (ast.ListComp, ast.GeneratorExp)):
            g = e.args[0]
            if len(g.generators) != 1 or g.generators[0].ifs or not is_name(g.generators[0].target):
                fail(e, 'any() form')
            lv, lt = ex(g.generators[0].iter, env, F)
            if lt != 'datalist':
                fail(e, 'any over a %s' % lt)
            var = g.generators[0].target.id
            el = g.elt
            if isinstance(el, ast.Compare) and len(el.ops) == 1 and isinstance(el.ops[0], ast.Eq) and ast.unparse(el.left) == var + '.label':
                bv, bt = ex(el.comparators[0], env, F)
                if bt == 'data':
                    return '(* %s: a label is not a dataset *) false' % ast.unparse(e), 'static-false'
            fail(e, 'any() body')
        if is_name(fn, 'isinstance') and len(e.args) == 2 and not e.keywords and ast.unparse(e.args[1]) == '(Data, DataCollection)':
            v, t = ex(e.args[0], env, F)
            if t == 'dc':
                return 'true', 'static-true'
            fail(e, 'isinstance of a %s' % t)
        if is_name(fn, 'EditSubsetMessage') and len(e.args) == 3 and not e.keywords:
            (v0, t0), (v1, t1), (v2, t2) = [ex(a, env, F) for a in e.args]
            if (t0, t1, t2) != ('esm', 'elist', 'mode'):
                fail(e, 'EditSubsetMessage(%s, %s, %s)' % (t0, t1, t2))
            return '(EvEditSubset (el_items %s) %s)' % (v1, v2), 'msg'
        if isinstance(fn, ast.Attribute):
            if txt.endswith('.extra.get') and len(e.args) == 1 and not e.keywords and isinstance(e.args[0], ast.Constant) \
                    and e.args[0].value == 'override_mode':
                v, t = ex(fn.value.value, env, F)
                if t != 'cobj':
                    fail(e, '.extra of a %s' % t)
                return '(c_override_mode %s)' % v, 'optmode'
            if fn.attr == 'copy' and not e.args and not e.keywords:
                v, t = ex(fn.value, env, F)
                if t != 'state':
                    fail(e, 'copy of a %s' % t)
                return '(copy %s)' % v, 'state'
            if fn.attr == 'new_subset_group':
                v, t = ex(fn.value, env, F)
                if t != 'dc' or e.args or len(e.keywords) != 1 or e.keywords[0].arg != 'subset_state':
                    fail(e, 'new_subset_group form')
                if not CUR['new_group_returns_result']:
                    fail(e, 'DataCollection.new_subset_group does not end with `return result` (result = SubsetGroup(.., subset_state=subset_state, ..))')
                sv, st = ex(e.keywords[0].value, env, F)
                if st != 'state':
                    fail(e, 'subset_state of type %s' % st)
                r = F.fresh()
                F.pre.append("let '(%s, ss) := call_new_subset_group %s ss in\n" % (r, sv))
                F.touched.add('%ss')
                return r, 'group'
        fail(e, 'call in an expression')
    fail(e, 'expression')


# ------------------------------------------------------------------ statements
def contains(stmts, kinds):
    for s in stmts:
        for n in ast.walk(s):
            if isinstance(n, kinds):
                return n
    return None


def ends_with_return(stmts):
    return bool(stmts) and isinstance(stmts[-1], (ast.Return, ast.Raise))


def is_noop(s):
    if isinstance(s, ast.Expr) and isinstance(s.value, ast.Constant) and isinstance(s.value.value, str):
        return True
    if isinstance(s, ast.Expr) and isinstance(s.value, ast.Call):
        t = ast.unparse(s.value.func)
        if t.startswith('logging.getLogger(') and t.endswith('.debug'):
            return True
    return isinstance(s, ast.Pass)


def coerce(v, t, want, node):
    if t == want:
        return v
    if want == 'optmode' and t == 'mode':
        return '(Some %s)' % v
    if want == 'optmode' and t == 'none':
        return 'None'
    if want == 'sdict' and t == 'emptydict':
        return '[]'
    if want == 'gdict' and t == 'emptydict':
        return '[]'
    fail(node, 'a %s where a %s is expected' % (t, want))


def call_translated(key, args, kws, node, env, F):
    """call of a translated function as a statement -> gallina text binding the new state"""
    T = TRANSLATED[key]
    vals = []
    kws = dict(kws)
    for i, (pn, pt) in enumerate(T['params']):
        if i < len(args):
            a = args[i]
        elif pn in kws:
            a = kws.pop(pn)
        elif pt in ('optmode', 'ignored'):
            if pt == 'optmode':
                vals.append('None')
            continue
        else:
            fail(node, 'missing argument %s' % pn)
        if pt == 'ignored':
            continue
        v, t = ex(a, env, F)
        if pt in VALUELESS:
            if t != pt:
                fail(node, 'argument %s is a %s, expected the %s' % (pn, t, pt))
            continue
        vals.append(coerce(v, t, pt, node))
    if len(args) > len(T['params']) or kws:
        fail(node, 'too many arguments')
    head = T['name'] + ''.join(' ' + v for v in vals)
    pre = take_pre(F)
    if T['kind'] == 'esm':
        F.touched.add('%ss')
        if T['raising']:
            if not F.raising:
                fail(node, 'call of a raising function from a function not marked as raising')
            return pre, 'match %s ss with SRaised e_ ss => %s | SDone ss =>\n' % (head, F.raised('e_')), ' end'
        return pre, 'let ss := %s ss in\n' % head, ''
    # kind cmd: the command object is the first python argument
    F.touched.add('%ss')
    F.touched.add(F.cvar)
    c = vn(F.cvar)
    if T['raising']:
        fail(node, 'raising helper taking a command')
    return pre, "let '(%s, ss) := %s ss in\n" % (c, head), ''


def tr_call_stmt(c, env, F):
    """a call used as a statement -> (pre, opening text, closing text)"""
    fn = c.func
    if is_name(fn):
        if fn.id in env and env[fn.id] == 'mode':
            if len(c.args) != 2 or c.keywords:
                fail(c, 'mode call form')
            (gv, gt), (sv, st) = ex(c.args[0], env, F), ex(c.args[1], env, F)
            if (gt, st) != ('group', 'state'):
                fail(c, 'mode(%s, %s)' % (gt, st))
            F.touched.add('%ss')
            return take_pre(F), 'let ss := set_gstate (hupd (s_gstate ss) %s (mode_fn %s (s_gstate ss %s) %s)) ss in\n' % (gv, vn(fn.id), gv, sv), ''
        if fn.id in TRANSLATED:
            T = TRANSLATED[fn.id]
            if T['kind'] != 'cmd':
                fail(c, 'call of %s' % fn.id)
            # first parameter is the command
            v0, t0 = ex(c.args[0], env, F)
            if t0 != 'cobj' or v0 != vn(F.cvar):
                fail(c, 'first argument is not the command of this function')
            pre, o, cl = call_translated(fn.id, c.args[1:], {k.arg: k.value for k in c.keywords}, c, env, F)
            return pre, o.replace(T['name'], T['name'] + ' ' + v0, 1), cl
        fail(c, 'call of an unknown function')
    if not isinstance(fn, ast.Attribute):
        fail(c, 'call statement')
    m = fn.attr
    # C.apply_func(C.roi)
    if m == 'apply_func':
        v, t = ex(fn.value, env, F)
        if t != 'cobj' or len(c.args) != 1 or c.keywords:
            fail(c, 'apply_func form')
        rv, rt = ex(c.args[0], env, F)
        if rt != 'state':
            fail(c, 'apply_func(<%s>)' % rt)
        if not F.raising:
            fail(c, 'apply_func in a function not marked as raising')
        F.apply_func = True
        F.touched.add('%ss')
        return take_pre(F), 'match apply_func %s ss with SRaised e_ ss => %s | SDone ss =>\n' % (rv, F.raised('e_')), ' end'
    # D.hub.broadcast(msg)
    if m == 'broadcast' and isinstance(fn.value, ast.Attribute) and fn.value.attr == 'hub':
        v, t = ex(fn.value.value, env, F)
        if t != 'dc' or len(c.args) != 1 or c.keywords:
            fail(c, 'broadcast form')
        mv, mt = ex(c.args[0], env, F)
        if mt != 'msg':
            fail(c, 'broadcast of a %s' % mt)
        F.touched.add('%ss')
        return take_pre(F), 'let ss := session_event %s ss in\n' % mv, ''
    recv, rt = ex(fn.value, env, F)
    kws = {k.arg: k.value for k in c.keywords}
    if rt == 'dc' and m in ('append', 'remove', 'remove_subset_group') and len(c.args) == 1 and not kws:
        av, at = ex(c.args[0], env, F)
        want = 'group' if m == 'remove_subset_group' else 'data'
        if at != want:
            fail(c, '%s of a %s' % (m, at))
        F.touched.add('%ss')
        if m == 'append':
            if not F.raising:
                fail(c, 'append in a function not marked as raising')
            return take_pre(F), ('match DataCollection_append %s (s_heap ss) with Raised e_ h_ => let ss := set_heap h_ ss in %s '
                                 '| Done h_ => let ss := set_heap h_ ss in\n' % (av, F.raised('e_'))), ' end'
        return take_pre(F), 'let ss := set_heap (DataCollection_%s %s (s_heap ss)) ss in\n' % (m, av), ''
    if rt == 'sub' and m == 'delete' and not c.args and not kws:
        F.touched.add('%ss')
        return take_pre(F), 'let ss := set_heap (Subset_delete %s (s_heap ss)) ss in\n' % recv, ''
    if rt == 'esm':
        k = 'EditSubsetMode.' + m
        if k in TRANSLATED:
            return call_translated(k, c.args, kws, c, env, F)
    fail(c, 'call of .%s on a %s' % (m, rt))


def raising_stmt(stmts, env, F):
    """does the block contain something that can raise (syntactically)?"""
    for s in stmts:
        for n in ast.walk(s):
            if isinstance(n, ast.Raise):
                return n
            if isinstance(n, ast.Call) and isinstance(n.func, ast.Attribute):
                if n.func.attr in ('append', 'apply_func', 'update', '_combine_data'):
                    return n
    return None


def cn(x):
    return 'ss' if x == '%ss' else vn(x)


def tuple_of(names):
    names = [cn(x) for x in names]
    return names[0] if len(names) == 1 else '(%s)' % ', '.join(names)


def pat_of(names):
    names = [cn(x) for x in names]
    return names[0] if len(names) == 1 else "'(%s)" % ', '.join(names)


def ordered(touched, F, env):
    """threaded variables in a fixed order: locals (sorted), the command, ss"""
    loc = sorted(x for x in touched if x not in ('%ss', F.cvar))
    for x in loc:
        if x not in env:
            fail(CUR['node'], 'variable %s is first assigned inside a branch / loop' % x)
    out = loc
    if F.cvar in touched:
        out = out + [F.cvar]
    if '%ss' in touched:
        out = out + ['%ss']
    return out


PLACE = '@@TAIL@@'


def tr_sub(stmts, env, F):
    """translate a fall-through block once to find what it rebinds, then with the tuple of these as its value"""
    saved_t, saved_r, saved_tmp = F.touched, F.raising, F.tmp
    F.touched = set()
    F.raising = False
    tr_block(stmts, dict(env), F, PLACE)
    touched = F.touched
    F.tmp = saved_tmp
    F.touched = set()
    names = ordered(touched, F, env) or ['%ss']
    txt = tr_block(stmts, dict(env), F, tuple_of(names))
    F.touched, F.raising = saved_t | touched, saved_r
    return txt, names


def tr_block(stmts, env, F, tail):
    """stmts followed by `tail` (gallina text of what the block evaluates to when it falls off its end; None = function result)"""
    if not stmts:
        return tail if tail is not None else F.done()
    s, rest = stmts[0], stmts[1:]
    CUR['node'] = s

    def cont(env2=None):
        return tr_block(rest, env if env2 is None else env2, F, tail)
    if is_noop(s):
        return cont()
    if isinstance(s, ast.Return):
        if s.value is not None:
            fail(s, 'return of a value')
        if rest:
            fail(rest[0], 'code after return')
        if tail is not None:
            fail(s, 'return inside a branch that falls through / a loop')
        return F.done()
    if isinstance(s, ast.Raise):
        if not (isinstance(s.exc, ast.Call) and is_name(s.exc.func) and s.exc.func.id in ('RuntimeError', 'TypeError')):
            fail(s, 'raise form')
        if not F.raising or tail is not None:
            fail(s, 'raise in a function not marked as raising / inside a loop')
        return F.raised('E_' + s.exc.func.id)
    if isinstance(s, ast.If):
        cv, ct = ex(s.test, env, F)
        pre = take_pre(F)
        if ct == 'static-false':
            return '(* `%s` is statically false: the branch is not translated *)\n' % ast.unparse(s.test) + tr_block(list(s.orelse) + rest, env, F, tail)
        if ct == 'static-true':
            if contains(s.body, (ast.Return,)) and not ends_with_return(s.body):
                fail(s, 'return in the middle of a branch')
            return '(* `%s` is statically true: the other branch is not translated *)\n' % ast.unparse(s.test) + \
                tr_block(list(s.body) + ([] if ends_with_return(s.body) else rest), env, F, tail)
        if ct != 'bool':
            fail(s, 'condition of type %s' % ct)
        a_ret, b_ret = ends_with_return(s.body), ends_with_return(s.orelse)
        if a_ret or b_ret:
            if tail is not None:
                fail(s, 'return inside a branch that falls through / a loop')
            a = tr_block(list(s.body) + ([] if a_ret else rest), dict(env), F, None)
            b = tr_block(list(s.orelse) + ([] if b_ret else rest), dict(env), F, None)
            return pre + 'if %s then\n%s\nelse\n%s' % (cv, a, b)
        for side in (s.body, s.orelse):
            n = contains(side, (ast.Return, ast.Raise))
            if n is not None:
                fail(n, 'return/raise in the middle of a branch')
        if raising_stmt(list(s.body) + list(s.orelse), env, F):
            # a side that can raise and falls through: the rest of the block is repeated on both sides
            a = tr_block(list(s.body) + rest, dict(env), F, tail)
            b = tr_block(list(s.orelse) + rest, dict(env), F, tail)
            return pre + 'if %s then\n%s\nelse\n%s' % (cv, a, b)
        # both sides fall through: join what they rebind
        saved_t, saved_tmp = F.touched, F.tmp
        F.touched = set()
        sr = F.raising
        F.raising = False
        tr_block(s.body, dict(env), F, PLACE)
        tr_block(s.orelse, dict(env), F, PLACE)
        touched = F.touched
        F.tmp = saved_tmp
        names = ordered(touched, F, env) or ['%ss']
        a = tr_block(s.body, dict(env), F, tuple_of(names))
        b = tr_block(s.orelse, dict(env), F, tuple_of(names))
        F.touched, F.raising = saved_t | touched, sr
        return pre + 'let %s := (if %s then\n%s\nelse\n%s) in\n%s' % (pat_of(names), cv, a, b, cont())
    if isinstance(s, ast.Assign) and len(s.targets) == 1:
        t, v = s.targets[0], s.value
        if isinstance(t, ast.Name):
            vv, vt = ex(v, env, F)
            pre = take_pre(F)
            if vt in VALUELESS:
                return pre + cont(dict(env, **{t.id: vt}))       # an alias of the session's objects: no value
            if vt in ('static-false', 'static-true', 'emptydict', 'msg'):
                fail(s, 'assignment of a %s' % vt)
            if t.id in env and env[t.id] not in VALUELESS:
                vv = coerce(vv, vt, env[t.id], s)
                vt = env[t.id]
            elif vt == 'none':
                fail(s, 'None assigned to a new variable')
            F.touched.add(t.id)
            return pre + 'let %s := %s in\n%s' % (vn(t.id), vv, cont(dict(env, **{t.id: vt})))
        if isinstance(t, ast.Subscript):
            # C.old_states[K] = V
            dv, dt = ex(t.value, env, F)
            if not (isinstance(t.value, ast.Attribute) and dt == 'sdict' and ex(t.value.value, env, F)[1] == 'cobj'):
                fail(s, 'subscript assignment')
            cv_ = ex(t.value.value, env, F)[0]
            (kv, kt), (vv, vt) = ex(t.slice, env, F), ex(v, env, F)
            if (kt, vt) != ('sub', 'state') or cv_ != vn(F.cvar):
                fail(s, 'old_states[%s] = %s' % (kt, vt))
            F.touched.add(F.cvar)
            return take_pre(F) + 'let %s := set_old_states (sdict_set %s %s %s) %s in\n%s' % (cv_, dv, kv, vv, cv_, cont())
        if isinstance(t, ast.Attribute):
            ov, ot = ex(t.value, env, F)
            if ot == 'cobj' and t.attr in COBJ_FIELDS and t.attr not in ('data', 'subset_state', 'roi'):
                if ov != vn(F.cvar):
                    fail(s, 'assignment to another command')
                f, ft = COBJ_FIELDS[t.attr]
                vv, vt = ex(v, env, F)
                vv = coerce(vv, vt, ft, s)
                F.touched.add(F.cvar)
                return take_pre(F) + 'let %s := set_%s %s %s in\n%s' % (ov, f[2:], vv, ov, cont())
            if ot == 'esm' and t.attr == 'edit_subset':
                k = 'EditSubsetMode.edit_subset.set'
                vv, vt = ex(v, env, F)
                if vt != 'elist':
                    fail(s, 'edit_subset = <%s>' % vt)
                F.touched.add('%ss')
                if k not in TRANSLATED:
                    fail(s, 'property written before its setter is translated')
                return take_pre(F) + 'let ss := %s %s ss in\n%s' % (TRANSLATED[k]['name'], vv, cont())
            if ot == 'esm' and t.attr == '_edit_subset':
                vv, vt = ex(v, env, F)
                if vt != 'elist':
                    fail(s, '_edit_subset = <%s>' % vt)
                F.touched.add('%ss')
                return take_pre(F) + 'let ss := set_edit %s ss in\n%s' % (vv, cont())
            if t.attr == 'subset_state' and ot in ('group', 'sub'):
                if ot == 'sub' and not CUR['pointer_ok']:
                    fail(s, 'GroupedSubset.subset_state is not Pointer("group.subset_state")')
                vv, vt = ex(v, env, F)
                if vt != 'state':
                    fail(s, 'subset_state = <%s>' % vt)
                g = ov if ot == 'group' else '(sub_group %s)' % ov
                F.touched.add('%ss')
                return take_pre(F) + 'let ss := set_gstate (hupd (s_gstate ss) %s %s) ss in\n%s' % (g, vv, cont())
        fail(s, 'assignment')
    if isinstance(s, ast.Expr) and isinstance(s.value, ast.Call):
        pre, o, cl = tr_call_stmt(s.value, env, F)
        return pre + o + cont() + cl
    if isinstance(s, ast.For):
        if s.orelse:
            fail(s, 'for-else')
        n = contains(s.body, (ast.Break, ast.Continue, ast.Return, ast.Raise))
        if n is not None:
            fail(n, 'break/continue/return/raise inside a loop')
        n = raising_stmt(s.body, env, F)
        if n is not None:
            fail(n, 'a call that can raise inside a loop')
        it = s.iter
        env2 = dict(env)
        live = None
        if isinstance(it, ast.Call) and isinstance(it.func, ast.Attribute) and it.func.attr == 'items' and not it.args and not it.keywords:
            dv, dt = ex(it.func.value, env, F)
            if dt not in ('gdict', 'sdict'):
                fail(s, '.items() of a %s' % dt)
            if not (isinstance(s.target, ast.Tuple) and len(s.target.elts) == 2 and all(is_name(x) for x in s.target.elts)):
                fail(s, 'target of an items() loop')
            a, b = s.target.elts[0].id, s.target.elts[1].id
            env2[a], env2[b] = ('group' if dt == 'gdict' else 'sub'), 'state'
            lst, pat = dv, "'(%s, %s)" % (vn(a), vn(b))
            live = ast.unparse(it.func.value)
        else:
            lv, lt = ex(it, env, F)
            if lt == 'dc':
                if not CUR['dc_iter_ok']:
                    fail(s, 'DataCollection.__iter__ is not `return iter(self._data)`')
                lv, lt = '(h_data (s_heap ss))', 'datalist'
                live = 'dc'
            if lt not in ('grouplist', 'datalist', 'sublist'):
                fail(s, 'iteration over a %s' % lt)
            if not is_name(s.target):
                fail(s, 'loop target')
            env2[s.target.id] = {'grouplist': 'group', 'datalist': 'data', 'sublist': 'sub'}[lt]
            lst, pat = lv, vn(s.target.id)
            if isinstance(it, ast.Call) and is_name(it.func, 'as_list'):
                live = 'edit'
        pre = take_pre(F)
        # the body must not change a list that is iterated without a copy
        for nn in ast.walk(ast.Module(body=s.body, type_ignores=[])):
            if live == 'dc' and isinstance(nn, ast.Call) and isinstance(nn.func, ast.Attribute) and nn.func.attr in ('append', 'remove', 'extend', 'clear', 'merge'):
                fail(nn, 'the loop body changes the collection it iterates over')
            if live == 'edit' and isinstance(nn, ast.Attribute) and nn.attr in ('edit_subset', '_edit_subset') and isinstance(nn.ctx, ast.Store):
                fail(nn, 'the loop body changes the list it iterates over')
            if live not in (None, 'dc', 'edit') and isinstance(nn, (ast.Subscript, ast.Attribute)) and isinstance(nn.ctx, ast.Store) \
                    and ast.unparse(nn).startswith(live):
                fail(nn, 'the loop body changes the dict it iterates over')
        body, names = tr_sub(s.body, env2, F)
        for x in names:
            if x not in ('%ss', F.cvar) and x not in env:
                fail(s, 'variable %s is first assigned inside the loop' % x)
        return pre + 'let %s := fold_left (fun %s %s =>\n%s) %s %s in\n%s' % (
            pat_of(names), pat_of(names), pat, body, lst, tuple_of(names), cont())
    fail(s, 'statement')


# ------------------------------------------------------------------ functions
def parse(rel):
    CUR['file'] = rel
    return ast.parse(open(os.path.join(REPO, rel)).read())


def find_class(mod, name):
    cs = [n for n in mod.body if isinstance(n, ast.ClassDef) and n.name == name]
    if len(cs) != 1:
        raise Unsupported('%s: class %s not found exactly once' % (CUR['file'], name))
    return cs[0]


def methods(cls, name):
    return [n for n in cls.body if isinstance(n, ast.FunctionDef) and n.name == name]


def deco_kinds(fn):
    out = []
    for d in fn.decorator_list:
        t = ast.unparse(d)
        if t == 'property':
            out.append('getter')
        elif t.endswith('.setter'):
            out.append('setter')
        elif t.startswith('contract(') or t == 'abstractmethod':
            out.append('ignored')
        else:
            fail(fn, 'decorator %s' % t)
    return out


def plain_args(fn, want):
    a = fn.args
    if a.vararg or a.kwarg or a.kwonlyargs or a.posonlyargs:
        fail(fn, 'signature')
    names = [x.arg for x in a.args]
    if names != want:
        fail(fn, 'signature: %s, expected %s' % (names, want))
    return a


def emit_pure(out, key, name, fn, env, ret_coq, params_coq, F):
    """a function whose body is (docstring +) `return E`"""
    body = [s for s in fn.body if not is_noop(s)]
    if len(body) != 1 or not isinstance(body[0], ast.Return) or body[0].value is None:
        fail(fn, 'body is not a single return')
    v, t = ex(body[0].value, env, F)
    if F.pre:
        fail(fn, 'effect in a getter')
    return v, t


def header(rel, fn, what):
    return '(* %s:%d-%d  %s *)' % (rel, fn.lineno, fn.end_lineno, what)


def generate():
    out = []
    # ---------------- checked assumptions about the surrounding code
    mod_dc = parse('glue/core/data_collection.py')
    DC = find_class(mod_dc, 'DataCollection')

    def body_is(cls, name, text, deco=None):
        ms = methods(cls, name)
        if len(ms) != 1:
            return False
        b = [s for s in ms[0].body if not is_noop(s)]
        return len(b) == 1 and ast.unparse(b[0]) == text
    CUR['dc_subset_groups_ok'] = body_is(DC, 'subset_groups', 'return tuple(self._subset_groups)')
    CUR['dc_iter_ok'] = body_is(DC, '__iter__', 'return iter(self._data)')
    nsg = methods(DC, 'new_subset_group')
    ok = False
    if len(nsg) == 1:
        b = nsg[0].body
        if isinstance(b[-1], ast.Return) and is_name(b[-1].value, 'result'):
            for n in ast.walk(nsg[0]):
                if isinstance(n, ast.Assign) and is_name(n.targets[0], 'result') and isinstance(n.value, ast.Call) and is_name(n.value.func, 'SubsetGroup') \
                        and any(k.arg == 'subset_state' and is_name(k.value, 'subset_state') for k in n.value.keywords):
                    ok = True
    CUR['new_group_returns_result'] = ok
    mod_data = parse('glue/core/data.py')
    CUR['data_subsets_ok'] = body_is(find_class(mod_data, 'BaseData'), 'subsets', 'return tuple(self._subsets)')
    mod_sg = parse('glue/core/subset_group.py')
    GS = find_class(mod_sg, 'GroupedSubset')
    CUR['pointer_ok'] = any(isinstance(n, ast.Assign) and ast.unparse(n) == "subset_state = Pointer('group.subset_state')" for n in GS.body)
    SG = find_class(mod_sg, 'SubsetGroup')
    sgi = methods(SG, '__init__')
    if not (len(sgi) == 1 and any(isinstance(n, ast.Assign) and ast.unparse(n) == 'self.subset_state = subset_state' for n in ast.walk(sgi[0]))):
        raise Unsupported('glue/core/subset_group.py: SubsetGroup.__init__ does not store `self.subset_state = subset_state`')
    if methods(SG, 'subset_state') or any(isinstance(n, ast.Assign) and is_name(n.targets[0], 'subset_state') for n in SG.body):
        raise Unsupported('glue/core/subset_group.py: SubsetGroup.subset_state is not a plain attribute')
    mod_misc = parse('glue/utils/misc.py')
    al = [n for n in mod_misc.body if isinstance(n, ast.FunctionDef) and n.name == 'as_list']
    CUR['as_list_ok'] = len(al) == 1 and [ast.unparse(s) for s in al[0].body if not is_noop(s)][:1] == ['if isinstance(x, list):\n    return x']
    mod_sess = parse('glue/core/session.py')
    si = methods(find_class(mod_sess, 'Session'), '__init__')
    if not (len(si) == 1 and any(isinstance(n, ast.Assign) and ast.unparse(n) == 'self.edit_subset_mode.data_collection = self.data_collection'
                                 for n in ast.walk(si[0]))):
        raise Unsupported('glue/core/session.py: Session.__init__ does not set edit_subset_mode.data_collection = self.data_collection')

    # ---------------- edit_subset_mode.py
    rel = 'glue/core/edit_subset_mode.py'
    mod = parse(rel)
    del MODES[:]
    for n in mod.body:
        if isinstance(n, ast.FunctionDef) and n.name.endswith('Mode'):
            if [a.arg for a in n.args.args] != ['edit_subset', 'new_state']:
                fail(n, 'signature of a mode function')
            MODES.append(n.name)
    if not MODES:
        raise Unsupported('%s: no mode function found' % rel)
    CUR['mode_names_visible'] = set(MODES)
    ESM = find_class(mod, 'EditSubsetMode')
    funcs = []
    env_esm = {'self': 'esm'}
    # getters
    for prop, field in (('mode', 'mode'), ('edit_subset', 'elist')):
        g = [m for m in methods(ESM, prop) if 'getter' in deco_kinds(m)]
        if len(g) != 1:
            raise Unsupported('%s: property %s not found' % (rel, prop))
        plain_args(g[0], ['self'])
        F = Fn('get', 'esm', None, False, None)
        v, t = emit_pure(out, None, None, g[0], env_esm, None, None, F)
        if t != field:
            fail(g[0], 'getter returns a %s' % t)
        name = 'EditSubsetMode_%s_get' % prop
        TRANSLATED['EditSubsetMode.%s.get' % prop] = dict(name=name, kind='pure', params=[], raising=False, ret=t)
        funcs.append('%s\nDefinition %s (ss : session) : %s := %s.\n' % (header(rel, g[0], 'EditSubsetMode.%s (getter)' % prop), name, COQ_TYPE[t], v))

    def esm_method(fn, key, name, params, raising, what):
        F = Fn(key, 'esm', None, raising, None)
        env = dict(env_esm)
        ps = ''
        for pn, pt in params:
            if pt == 'ignored':
                for n in ast.walk(ast.Module(body=fn.body, type_ignores=[])):
                    if is_name(n, pn):
                        fail(n, 'parameter %s is used' % pn)
                continue
            env[pn] = pt
            if pt not in VALUELESS:
                ps += ' (%s : %s)' % (vn(pn), COQ_TYPE[pt])
        body = tr_block(list(fn.body), env, F, None)
        TRANSLATED[key] = dict(name=name, kind='esm', params=params, raising=raising, ret=None)
        funcs.append('%s\nDefinition %s%s (ss : session) : %s :=\n%s.\n' % (header(rel, fn, what), name, ps, 'sres' if raising else 'session', body))

    b = methods(ESM, '_broadcast')
    if len(b) != 1:
        raise Unsupported('%s: _broadcast not found' % rel)
    plain_args(b[0], ['self'])
    deco_kinds(b[0])
    esm_method(b[0], 'EditSubsetMode._broadcast', 'EditSubsetMode__broadcast', [], False, 'EditSubsetMode._broadcast')
    st = [m for m in methods(ESM, 'edit_subset') if 'setter' in deco_kinds(m)]
    if len(st) != 1:
        raise Unsupported('%s: setter of edit_subset not found' % rel)
    plain_args(st[0], ['self', 'value'])
    esm_method(st[0], 'EditSubsetMode.edit_subset.set', 'EditSubsetMode_edit_subset_set', [('value', 'elist')], False, 'EditSubsetMode.edit_subset (setter)')
    cd = methods(ESM, '_combine_data')
    if len(cd) != 1:
        raise Unsupported('%s: _combine_data not found' % rel)
    a = plain_args(cd[0], ['self', 'new_state', 'override_mode'])
    deco_kinds(cd[0])
    if len(a.defaults) != 1 or ast.unparse(a.defaults[0]) != 'None':
        fail(cd[0], 'default of override_mode')
    esm_method(cd[0], 'EditSubsetMode._combine_data', 'EditSubsetMode__combine_data', [('new_state', 'state'), ('override_mode', 'optmode')], True,
               'EditSubsetMode._combine_data')
    up = methods(ESM, 'update')
    if len(up) != 1:
        raise Unsupported('%s: update not found' % rel)
    a = plain_args(up[0], ['self', 'd', 'new_state', 'focus_data', 'override_mode'])
    deco_kinds(up[0])
    if [ast.unparse(x) for x in a.defaults] != ['None', 'None']:
        fail(up[0], 'defaults of update')
    esm_method(up[0], 'EditSubsetMode.update', 'EditSubsetMode_update', [('d', 'dc'), ('new_state', 'state'), ('focus_data', 'ignored'), ('override_mode', 'optmode')],
               True, 'EditSubsetMode.update  (d is the session\'s DataCollection)')

    # ---------------- DataCollection.__contains__
    rel = 'glue/core/data_collection.py'
    CUR['file'] = rel
    c = methods(DC, '__contains__')
    if len(c) != 1:
        raise Unsupported('%s: __contains__ not found' % rel)
    plain_args(c[0], ['self', 'obj'])
    F = Fn('contains', 'esm', None, False, None)
    env_c = {'self': 'dc', 'obj': 'data', 'data': 'datum'}
    # `data.label` inside the comprehension: typed by the any() rule
    v, t = emit_pure(out, None, None, c[0], {'self': 'dc', 'obj': 'data'}, None, None, F)
    if t != 'bool':
        fail(c[0], '__contains__ returns a %s' % t)
    TRANSLATED['DataCollection.__contains__'] = dict(name='DataCollection_contains', kind='pure', params=[('obj', 'data')], raising=False, ret='bool')
    funcs.append('%s\nDefinition DataCollection_contains (obj : Z) (ss : session) : bool :=\n%s.\n' % (header(rel, c[0], 'DataCollection.__contains__  (obj is a dataset)'), v))

    # ---------------- command.py
    rel = 'glue/core/command.py'
    mod = parse(rel)
    vis = set()
    for n in mod.body:
        if isinstance(n, ast.ImportFrom) and n.module == 'glue.core.edit_subset_mode':
            vis |= {a.asname or a.name for a in n.names if a.name == (a.asname or a.name)}
    CUR['mode_names_visible'] = vis & set(MODES)

    def cmd_function(fn, key, name, cvar, raising, what, extra_params=''):
        F = Fn(key, 'cmd', cvar, raising, None)
        env = {cvar: 'cobj', 'session': 'session'}
        body = tr_block(list(fn.body), env, F, None)
        TRANSLATED[key] = dict(name=name, kind='cmd', params=[('session', 'session')], raising=raising, ret=None)
        ap = ' (apply_func : S -> session -> sres)' if F.apply_func else ''
        funcs.append('%s\nDefinition %s%s (%s : cobj) (ss : session) : %s :=\n%s.\n' % (
            header(rel, fn, what), name, ap, vn(cvar), 'cres' if raising else 'cobj * session', body))
        return F

    for fname in ('_snapshot_subsets', '_restore_subsets'):
        fs = [n for n in mod.body if isinstance(n, ast.FunctionDef) and n.name == fname]
        if len(fs) != 1:
            raise Unsupported('%s: function %s not found exactly once' % (rel, fname))
        plain_args(fs[0], ['cmd', 'session'])
        deco_kinds(fs[0])
        cmd_function(fs[0], fname, fname.lstrip('_'), 'cmd', False, fname)
    for cls_name, kwargs in (('AddData', ['data']), ('RemoveData', ['data']), ('ApplyROI', ['data_collection', 'roi', 'apply_func']),
                             ('ApplySubsetState', ['data_collection', 'subset_state'])):
        cls = find_class(mod, cls_name)
        kw = [n for n in cls.body if isinstance(n, ast.Assign) and is_name(n.targets[0], 'kwargs')]
        if len(kw) != 1 or ast.literal_eval(kw[0].value) != kwargs:
            raise Unsupported('%s: %s.kwargs is not %r' % (rel, cls_name, kwargs))
        if [ast.unparse(b) for b in cls.bases] != ['Command']:
            raise Unsupported('%s: bases of %s' % (rel, cls_name))
        for mname in ('do', 'undo'):
            ms = methods(cls, mname)
            if len(ms) != 1:
                raise Unsupported('%s: %s.%s not found exactly once' % (rel, cls_name, mname))
            plain_args(ms[0], ['self', 'session'])
            deco_kinds(ms[0])
            raising = raising_stmt(ms[0].body, None, None) is not None
            cmd_function(ms[0], '%s.%s' % (cls_name, mname), '%s_%s' % (cls_name, mname), 'self', raising, '%s.%s' % (cls_name, mname))

    mode_fn = ''.join('    | M_%s => %s S P\n' % (m, m) for m in MODES)
    text = PREAMBLE_A + mode_block() + PREAMBLE_B.replace('@@MODE_FN@@', mode_fn) + '\n'.join(funcs) + '\nEnd Commands.\n'
    if not os.path.exists(OUT) or open(OUT).read() != text:
        open(OUT, 'w').write(text)


def mode_block():
    ms = MODES
    lines = ['(* the module-level mode functions of glue/core/edit_subset_mode.py, in source order *)',
             'Inductive mode_name : Type := %s.' % ' | '.join('M_' + m for m in ms),
             'Definition mode_eqb (a b : mode_name) : bool :=\n  match a, b with\n%s  | _, _ => false\n  end.' %
             ''.join('  | M_%s, M_%s => true\n' % (m, m) for m in ms),
             'Definition mode_index (m : mode_name) : Z :=\n  match m with %s end.' % ' | '.join('M_%s => %d' % (m, i) for i, m in enumerate(ms)),
             '']
    return '\n'.join(lines) + '\n'


PREAMBLE_A = r"""(* GENERATED by tools/gen/gen_commands.py from glue/core/{command,edit_subset_mode,data_collection}.py on every run -- do not edit. *)
From Coq Require Import ZArith List Bool.
Import ListNotations.
From GV Require Import gen.Gen_groups gen.Gen_combine.
Open Scope Z_scope.
Set Implicit Arguments.

"""

PREAMBLE_B = r"""
Definition E_RuntimeError : Z := 4.

(* ---------- fixed preamble: values ---------- *)
(* a Python list object holding groups: `is` compares the object, the items are its contents (no list of the model is changed in place) *)
Record elist : Type := mkEl { el_id : Z; el_items : list Z }.
Definition list_is_empty (l : list Z) : bool := match l with [] => true | _ => false end.

(* what reaches the hub from the session: EditSubsetMessage(mode object, edit_subset, mode) *)
Inductive sevent : Type := EvEditSubset (items : list Z) (m : mode_name).

(* dicts keyed by objects (identity), in insertion order; d[k] = v replaces in place or appends *)
Fixpoint gdict_set (V : Type) (d : list (Z * V)) (k : Z) (v : V) : list (Z * V) :=
  match d with [] => [(k, v)] | p :: r => if fst p =? k then (k, v) :: r else p :: gdict_set r k v end.
Definition gdict_of_pairs (V : Type) (ps : list (Z * V)) : list (Z * V) := fold_left (fun d p => gdict_set d (fst p) (snd p)) ps [].
Definition gdict_mem (V : Type) (k : Z) (d : list (Z * V)) : bool := existsb (fun p => fst p =? k) d.
Definition gdict_mem_opt (V : Type) (k : option Z) (d : list (Z * V)) : bool := match k with Some g => gdict_mem g d | None => false end.
Fixpoint sdict_set (V : Type) (d : list (sub * V)) (k : sub) (v : V) : list (sub * V) :=
  match d with [] => [(k, v)] | p :: r => if sub_id (fst p) =? sub_id k then (k, v) :: r else p :: sdict_set r k v end.
Definition sdict_mem (V : Type) (k : sub) (d : list (sub * V)) : bool := existsb (fun p => sub_id (fst p) =? sub_id k) d.

Section Commands.
  Variable S : Type.                              (* subset states *)
  Variable P : prims S.
  Local Notation copy := (p_copy S P).

  (* mode(edit_subset, new_state): the new state of the edit subset, by the functions Gen_combine translated *)
  Definition mode_fn (m : mode_name) : S -> S -> S :=
    match m with
@@MODE_FN@@    end.

  Record session : Type := mkSession {
    s_heap : heap;                      (* session.data_collection: the heap of Gen_groups *)
    s_gstate : Z -> S;                  (* SubsetGroup.subset_state (a GroupedSubset reads and writes it through its Pointer) *)
    s_edit : elist;                     (* session.edit_subset_mode._edit_subset *)
    s_mode : mode_name;                 (* session.edit_subset_mode._mode *)
    s_mode_dc : bool;                   (* session.edit_subset_mode.data_collection is not None *)
    s_next_lid : Z;                     (* list objects allocated so far *)
    s_events : list sevent              (* EditSubsetMessages handed to the hub, in order *)
  }.
  Definition set_heap v (ss : session) := mkSession v (s_gstate ss) (s_edit ss) (s_mode ss) (s_mode_dc ss) (s_next_lid ss) (s_events ss).
  Definition set_gstate v (ss : session) := mkSession (s_heap ss) v (s_edit ss) (s_mode ss) (s_mode_dc ss) (s_next_lid ss) (s_events ss).
  Definition set_edit v (ss : session) := mkSession (s_heap ss) (s_gstate ss) v (s_mode ss) (s_mode_dc ss) (s_next_lid ss) (s_events ss).
  Definition set_next_lid v (ss : session) := mkSession (s_heap ss) (s_gstate ss) (s_edit ss) (s_mode ss) (s_mode_dc ss) v (s_events ss).
  Definition set_events v (ss : session) := mkSession (s_heap ss) (s_gstate ss) (s_edit ss) (s_mode ss) (s_mode_dc ss) (s_next_lid ss) v.
  Definition session_event (e : sevent) (ss : session) : session := set_events (s_events ss ++ [e]) ss.
  (* [x]: a new list object *)
  Definition new_list (items : list Z) (ss : session) : elist * session :=
    (mkEl (s_next_lid ss) items, set_next_lid (s_next_lid ss + 1) ss).
  (* D.new_subset_group(subset_state=e): Gen_groups' translation (selections are opaque to it), the SubsetGroup object it
     allocates and returns, and SubsetGroup.__init__'s `self.subset_state = subset_state` *)
  Definition call_new_subset_group (subset_state : S) (ss : session) : Z * session :=
    let result := h_next_gid (s_heap ss) in
    let ss := set_heap (DataCollection_new_subset_group None None (s_heap ss)) ss in
    (result, set_gstate (hupd (s_gstate ss) result subset_state) ss).

  (* a command object: its keyword arguments and what do() records on it *)
  Record cobj : Type := mkCobj {
    c_data : Z;                                (* AddData / RemoveData: self.data *)
    c_subset_state : S;                        (* ApplySubsetState: self.subset_state *)
    c_roi : S;                                 (* ApplyROI: self.roi (the selection the region stands for) *)
    c_override_mode : option mode_name;        (* self.extra.get('override_mode') *)
    c_added : bool;                            (* AddData._added *)
    c_removed : bool;                          (* RemoveData._removed *)
    c_old_groups : list (Z * S);               (* old_groups *)
    c_old_states : list (sub * S);             (* old_states *)
    c_old_edit_subset : elist                  (* old_edit_subset *)
  }.
  Definition set_added v (c : cobj) := mkCobj (c_data c) (c_subset_state c) (c_roi c) (c_override_mode c) v (c_removed c) (c_old_groups c) (c_old_states c) (c_old_edit_subset c).
  Definition set_removed v (c : cobj) := mkCobj (c_data c) (c_subset_state c) (c_roi c) (c_override_mode c) (c_added c) v (c_old_groups c) (c_old_states c) (c_old_edit_subset c).
  Definition set_old_groups v (c : cobj) := mkCobj (c_data c) (c_subset_state c) (c_roi c) (c_override_mode c) (c_added c) (c_removed c) v (c_old_states c) (c_old_edit_subset c).
  Definition set_old_states v (c : cobj) := mkCobj (c_data c) (c_subset_state c) (c_roi c) (c_override_mode c) (c_added c) (c_removed c) (c_old_groups c) v (c_old_edit_subset c).
  Definition set_old_edit_subset v (c : cobj) := mkCobj (c_data c) (c_subset_state c) (c_roi c) (c_override_mode c) (c_added c) (c_removed c) (c_old_groups c) (c_old_states c) v.

  Inductive sres : Type := SDone (ss : session) | SRaised (e : Z) (ss : session).
  Inductive cres : Type := CDone (c : cobj) (ss : session) | CRaised (e : Z) (c : cobj) (ss : session).

  (* ---------- translated functions ---------- *)
"""


def main():
    try:
        generate()
    except Unsupported as e:
        print('TRANSLATION-FAILED: %s' % e)
        sys.exit(3)
    print('ok', OUT)


if __name__ == '__main__':
    main()
