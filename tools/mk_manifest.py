#!/usr/bin/env python3
"""Build /verif/MANIFEST.json from tools/manifest_entries.json (one record per claimed property) + properties.jsonl."""
import json
import os

VERIF = os.path.dirname(os.path.dirname(os.path.abspath(__file__)))
props = [json.loads(l) for l in open(os.path.join(VERIF, 'properties.jsonl'))]
entries = json.load(open(os.path.join(VERIF, 'tools', 'manifest_entries.json')))
base = json.load(open('/root/.vp/BASELINE.json')) if os.path.exists('/root/.vp/BASELINE.json') else {'cmd': 'cd /repo && /venv/bin/python -m pytest -ra -q -p no:cacheprovider --timeout=900 --continue-on-collection-errors'}
old = json.load(open(os.path.join(VERIF, 'MANIFEST.json'))) if os.path.exists(os.path.join(VERIF, 'MANIFEST.json')) else {}
claimed = sorted(entries['checks'])
man = {
    'version': 1,
    'setup_cmd': './check --setup',
    'hooks': {
        'guard': 'GLUE_VERIF',
        'enable': 'none: no source hooks are needed; the checks import /repo\'s working tree directly (PYTHONPATH=/repo); GLUE_VERIF=1 is exported by ./check but nothing in /repo reads it',
        'baseline_off_cmd': old.get('hooks', {}).get('baseline_off_cmd') or base['cmd'],
        'source_commits': [],
        'add_only': True,
    },
    'engines': [
        {'name': 'coq-models', 'path': 'coq', 'serves_properties': claimed,
         'kind_free_text': 'Coq 8.16.1 development: executable Gallina models, theorems (Property.v per property: statements + exact + Print Assumptions), extraction to OCaml (ExtrOcamlBasic only)'},
        {'name': 'translators', 'path': 'tools/py2gallina.py', 'serves_properties': [p for p in claimed if p in entries.get('translated', [])],
         'kind_free_text': 'fail-closed Python-ast to Gallina translators and table extractors (tools/py2gallina.py, tools/gen/gen_*.py) that regenerate coq/gen from /repo on every run'},
        {'name': 'harness', 'path': 'tools/harness', 'serves_properties': claimed,
         'kind_free_text': 'correspondence (extracted model vs implementation on generated cases) and oracle search on the implementation; tools/check.py decides and writes the evidence'},
    ],
    'checks': [],
    'not_applicable': [],
    'notes': 'All checks: ./check Cxx --tier quick|thorough ; replay: ./check Cxx --replay <path>. Known findings: known_findings/Cxx.json (KNOWN-FINDING lines). Fix commits in /repo are unguarded "fix:" commits listed under "fixed" in the same files.',
}
for p in props:
    pid = p['id']
    if pid in entries['checks']:
        e = entries['checks'][pid]
        man['checks'].append({
            'property_id': pid,
            'quick_cmd': './check %s --tier quick' % pid,
            'thorough_cmd': './check %s --tier thorough' % pid,
            'evidence_file': 'evidence/%s.json' % pid,
            'replay_cmd_template': './check %s --replay {path}' % pid,
            'engine': 'coq-models',
            'level_claimed': {'category': 'proof', 'text': e['text'], 'design_ref': e.get('design_ref', 'DESIGN.md section 6 (%s) and section 10' % pid)},
            'level_note': e['note'],
            'technique': e['technique'],
        })
    else:
        man['not_applicable'].append({'property_id': pid, 'reason': entries.get('not_applicable', {}).get(
            pid, 'interim: the machinery for this property is still being built in this session (design in DESIGN.md section 6); no claim is made yet')})
json.dump(man, open(os.path.join(VERIF, 'MANIFEST.json'), 'w'), indent=1)
print('claimed:', ' '.join(claimed))
